#!/usr/bin/env python3
"""Writes MANIFEST.json from checks_table.py + manifest_meta.py (keeps commands and claims in one place)."""
import json, os, subprocess, sys
sys.path.insert(0, os.path.dirname(os.path.abspath(__file__)))
from checks_table import CHECKS
from manifest_meta import META, NOT_APPLICABLE, NOTES

hook_commits = ["5ee310b"]
checks = []
for pid in sorted(CHECKS):
    m = META[pid]
    checks.append({
        "property_id": pid,
        "quick_cmd": f"./check {pid} quick",
        "thorough_cmd": f"./check {pid} thorough",
        "evidence_file": f"evidence/{pid}.json",
        "replay_cmd_template": "./check --replay {path}",
        "engine": m.get("engine", "rapid"),
        "level_claimed": {"category": "exploration", "text": m["text"], "design_ref": m["design_ref"]},
        "level_note": m["note"],
        "technique": m["technique"],
    })
man = {
    "version": 1,
    "setup_cmd": "./setup.sh",
    "hooks": {
        "guard": "verif (Go build tag)",
        "enable": "go test -c -tags verif (the harness module replaces github.com/DavidGamba/go-getoptions with /repo)",
        "baseline_off_cmd": "./baseline.sh /repo",
        "source_commits": hook_commits,
        "add_only": True,
    },
    "engines": [
        {"name": "rapid", "path": "harness/cli, harness/dagh", "serves_properties": sorted(CHECKS), "kind_free_text": "pgregory.net/rapid v1.3.0 property-based testing: seeded generators, shrinking, pure check functions over JSON cases (replayable without the library)"},
        {"name": "go-native-fuzz", "path": "harness/cli (Fuzz* targets)", "serves_properties": [p for p in sorted(CHECKS) if CHECKS[p].get("fuzz")], "kind_free_text": "go test -fuzz coverage-guided fuzzing, thorough tier only; oracles live inside the targets"},
    ],
    "checks": checks,
    "not_applicable": NOT_APPLICABLE(CHECKS),
    "notes": NOTES,
}
json.dump(man, open(os.path.join(os.path.dirname(os.path.abspath(__file__)), "MANIFEST.json"), "w"), indent=1)
print("MANIFEST.json written:", len(checks), "checks,", len(man["not_applicable"]), "not applicable")
