#!/bin/bash
# Runs the repository's own test suite (guard OFF: no -tags verif) and prints pass/fail counts.
# usage: baseline.sh [repo-dir]
REPO=${1:-/repo}
export GOPROXY=off GOSUMDB=off GOTOOLCHAIN=local GOFLAGS=-mod=mod
cd "$REPO" || exit 2
out=$(go test -json -vet=off -count=1 -timeout 25m ./... 2>&1)
rc=$?
pass=$(printf '%s\n' "$out" | grep -c '"Action":"pass","Package":"[^"]*","Test"')
fail=$(printf '%s\n' "$out" | grep -c '"Action":"fail","Package":"[^"]*","Test"')
echo "baseline: pass=$pass fail=$fail rc=$rc"
if [ "$fail" != "0" ] || [ "$rc" != "0" ]; then
  printf '%s\n' "$out" | grep '"Action":"fail"' | head -20
  printf '%s\n' "$out" | grep '"Output"' | grep -v '^\s*$' | grep -i 'fail\|error\|panic' | head -40
  exit 1
fi
git -C "$REPO" status --short | head
exit 0
