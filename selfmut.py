#!/usr/bin/env python3
"""Self-made sensitivity mutants (section 7 of DESIGN.md): each is a small textual change to /repo that
breaks one property. For every mutant: apply to /repo, build, run the repository suite (recorded, not required),
run the property's quick check, revert. Results go to /verif/seeded/self-results.json.

  selfmut.py [name-prefix ...]
"""
import json
import os
import subprocess
import sys
import time

REPO = "/repo"
VERIF = os.path.dirname(os.path.abspath(__file__))
ENV = dict(os.environ, GOFLAGS="-mod=mod", GOPROXY="off", GOSUMDB="off", GOTOOLCHAIN="local", VERIF_EVIDENCE_DIR=os.path.join(os.path.dirname(os.path.abspath(__file__)), "work", "evidence-experiments"))

# (name, property, file, old, new, description)
MUTANTS = [
 ("C01-parseint-base0", "C01", "internal/option/option.go", "i, err := strconv.Atoi(a[0])\n\t\tif err != nil {\n\t\t\t// TODO: Create error type for use in tests with errors.Is\n\t\t\treturn fmt.Errorf(text.ErrorConvertToInt, opt.UsedAlias, a[0])",
  "i64, err := strconv.ParseInt(a[0], 0, 64)\n\t\ti := int(i64)\n\t\tif err != nil {\n\t\t\t// TODO: Create error type for use in tests with errors.Is\n\t\t\treturn fmt.Errorf(text.ErrorConvertToInt, opt.UsedAlias, a[0])", "int options parsed with base auto-detection: 0x10, 0b1, 1_000, 007 (octal) accepted/reinterpreted"),
 ("C01-float-trimspace", "C01", "internal/option/option.go", "f, err := strconv.ParseFloat(a[0], 64)\n\t\tif err != nil {\n\t\t\t// TODO: Create error type for use in tests with errors.Is\n\t\t\treturn fmt.Errorf(text.ErrorConvertToFloat64, opt.UsedAlias, a[0])",
  "f, err := strconv.ParseFloat(strings.TrimSpace(a[0]), 64)\n\t\tif err != nil {\n\t\t\t// TODO: Create error type for use in tests with errors.Is\n\t\t\treturn fmt.Errorf(text.ErrorConvertToFloat64, opt.UsedAlias, a[0])", "float text trimmed before conversion: ' 1' accepted"),
 ("C01-bool-toggle", "C01", "internal/option/option.go", "func (opt *Option) SetBoolAsOppositeToDefault() *Option {\n\t*opt.pBool = !opt.boolDefault", "func (opt *Option) SetBoolAsOppositeToDefault() *Option {\n\t*opt.pBool = !*opt.pBool", "bool toggles on every occurrence instead of opposite-of-default"),
 ("C01-string-trim", "C01", "internal/option/option.go", "\t\topt.SetString(a[0])\n\t\treturn nil", "\t\topt.SetString(strings.TrimRight(a[0], \"\\n\"))\n\t\treturn nil", "trailing newline of string values chomped"),
 ("C02-max-off-by-one", "C02", "api.go", "for ; i < cOpt.MaxArgs; i++ {", "for ; i <= cOpt.MaxArgs; i++ {", "greedy loop takes max+1 values"),
 ("C02-float-lookahead-dropped", "C02", "api.go", "\t\t\t\t\t\tcase option.Float64RepeatType:\n\t\t\t\t\t\t\t// Next Value is not a float64 entry, break the max feed.\n\t\t\t\t\t\t\t_, err := strconv.ParseFloat(value, 64)\n\t\t\t\t\t\t\tif err != nil {\n\t\t\t\t\t\t\t\tbreak MAX_LOOP\n\t\t\t\t\t\t\t}\n", "", "float slice greedy part no longer stops at a malformed element"),
 ("C02-range-exclusive", "C02", "internal/option/option.go", "for j := in1; j <= in2; j++ {", "for j := in1; j < in2; j++ {", "int range upper bound excluded"),
 ("C02-map-lookahead-equals-anywhere", "C02", "api.go", "if !strings.Contains(value, \"=\") {", "if !strings.Contains(value, \"=\") || strings.HasPrefix(value, \"=\") {", "map greedy part rejects '=v' (empty key) elements"),
 ("C03-tail-skips-first", "C03", "api.go", "func storeRemainingAsText(iterator *sliceiterator.Iterator, n *programTree) {\n\tvalue := iterator.Value()\n\tn.ChildText = append(n.ChildText, value)\n\tfor iterator.Next() {", "func storeRemainingAsText(iterator *sliceiterator.Iterator, n *programTree) {\n\tvalue := iterator.Value()\n\tif value != \"\" {\n\t\tn.ChildText = append(n.ChildText, value)\n\t}\n\tfor iterator.Next() {", "an empty-string token right after -- / at the stop point is dropped"),
 ("C03-descent-drops-text", "C03", "api.go", "\t\t\t\tif len(currentProgramNode.ChildText) > 0 {\n\t\t\t\t\tv.ChildText = append(append([]string{}, currentProgramNode.ChildText...), v.ChildText...)\n\t\t\t\t}\n", "", "positionals before a command token lost again"),
 ("C04-terminator-after-command-only", "C04", "api.go", "\t\tif iterator.Value() == \"--\" {\n\t\t\t// iterate over --", "\t\tif iterator.Value() == \"--\" && currentProgramNode.Parent == nil {\n\t\t\t// iterate over --", "`--` only honoured at the root level"),
 ("C04-lookahead-fix-reverted", "C04", "api.go", "\t\t\t\t\t\tif value == \"--\" {\n\t\t\t\t\t\t\tbreak\n\t\t\t\t\t\t}\n", "", "optional/greedy look-ahead swallows `--`"),
 ("C05-contains-instead-of-prefix", "C05", "api.go", "\t\tif strings.HasPrefix(k, entry) {\n\t\t\tmatches = append(matches, k)", "\t\tif strings.Contains(k, entry) {\n\t\t\tmatches = append(matches, k)", "abbreviation matches any substring"),
 ("C05-ambiguity-resolved-silently", "C05", "api.go", "\t\t\t\tif len(optionMatches) > 1 {\n\t\t\t\t\tsort.Strings(optionMatches)\n\t\t\t\t\terr := fmt.Errorf(text.ErrorAmbiguousArgument, cliArg, optionMatches)\n\t\t\t\t\treturn currentProgramNode, []string{}, err\n\t\t\t\t}", "\t\t\t\tif len(optionMatches) > 1 {\n\t\t\t\t\tsort.Strings(optionMatches)\n\t\t\t\t\tif !strings.HasPrefix(optionMatches[1], optionMatches[0]) {\n\t\t\t\t\t\terr := fmt.Errorf(text.ErrorAmbiguousArgument, cliArg, optionMatches)\n\t\t\t\t\t\treturn currentProgramNode, []string{}, err\n\t\t\t\t\t}\n\t\t\t\t\toptionMatches = optionMatches[:1]\n\t\t\t\t}", "ambiguous prefix resolved to the shortest candidate when candidates prefix each other"),
 ("C06-usedalias-primary", "C06", "api.go", "cOpt.UsedAlias = optionMatches[0]", "cOpt.UsedAlias = cOpt.Name", "CalledAs always reports the primary name"),
 ("C07-bundle-value-to-first", "C07", "isoption.go", "opts[len(opts)-1].Args = []string{args}", "opts[0].Args = []string{args}", "bundled =value goes to the first letter"),
 ("C07-long-option-consults-mode", "C07", "isoption.go", "\t\tif match[1] == \"--\" || match[1] == \"/\" {", "\t\tif (match[1] == \"--\" && !(mode == SingleDash && len(match[2]) == 1)) || match[1] == \"/\" {", "--x (single letter) treated like -x in SingleDash mode"),
 ("C08-warn-silent-in-commands", "C08", "user.go", "\t\tcase Warn:\n\t\t\tfmt.Fprintf(Writer, text.WarningOnUnknown+\"\\n\", option.Name)", "\t\tcase Warn:\n\t\t\tif gopt.finalNode.Parent == nil {\n\t\t\t\tfmt.Fprintf(Writer, text.WarningOnUnknown+\"\\n\", option.Name)\n\t\t\t}", "Warn mode prints nothing when a command was selected"),
 ("C08-unknown-not-carried", "C08", "api.go", "\t\t\t\tif len(currentProgramNode.UnknownOptions) > 0 {\n\t\t\t\t\tv.UnknownOptions = append(append([]*option.Option{}, currentProgramNode.UnknownOptions...), v.UnknownOptions...)\n\t\t\t\t}\n", "", "unknown options before a command token forgotten"),
 ("C09-requireorder-not-inherited", "C09", "user.go", "\t\trequireOrder:    gopt.programTree.requireOrder,\n", "", "commands do not inherit require-order"),
 ("C03-fix11-reverted-passthrough-rereads-iterator", "C03", "api.go", "\t\t\t\t\t\t\tcurrentProgramNode.ChildText = append(currentProgramNode.ChildText, cliArg)\n\t\t\t\t\t\t\tpassedThrough = true", "\t\t\t\t\t\t\tcurrentProgramNode.ChildText = append(currentProgramNode.ChildText, iterator.Value())\n\t\t\t\t\t\t\tpassedThrough = true", "pass-through re-reads the iterator: after a value-taking bundled letter the consumed value is handed back and the token is lost"),
 ("C03-fix12-reverted-require-order-stop-rereads-iterator", "C03", "api.go", "\t\t\t\t\t\tcurrentProgramNode.ChildText = append(currentProgramNode.ChildText, args[cliArgIdx:]...)\n\t\t\t\t\t\tbreak ARGS_LOOP", "\t\t\t\t\t\t_ = cliArgIdx\n\t\t\t\t\t\tstoreRemainingAsText(iterator, currentProgramNode)\n\t\t\t\t\t\tbreak ARGS_LOOP", "require-order stop inside a bundle starts at the iterator's current position: the stop token is lost"),
 ("C09-stop-on-unknown-option-dropped", "C09", "api.go", "\t\t\t\t\tif currentProgramNode.requireOrder {\n\t\t\t\t\t\t// Hand over", "\t\t\t\t\tif currentProgramNode.requireOrder && currentProgramNode.unknownMode != Pass {\n\t\t\t\t\t\t// Hand over", "require-order does not stop at an unknown option in Pass mode"),
 ("C10-dispatch-view-rooted-at-root", "C10", "user.go", "return gopt.finalNode.CommandFn(ctx, &GetOpt{gopt.finalNode, gopt.finalNode}, remaining)", "return gopt.finalNode.CommandFn(ctx, &GetOpt{gopt.programTree, gopt.finalNode}, remaining)", "CommandFn receives a view rooted at the root: command-own options invisible"),
 ("C11-dispatch-required-dropped-for-deep", "C11", "user.go", "\terr := checkRequiredOptions(gopt.finalNode.ChildOptions)\n\tif err != nil {\n\t\treturn err\n\t}\n\tif gopt.finalNode.CommandFn != nil {", "\tif gopt.finalNode.Level < 2 {\n\t\terr := checkRequiredOptions(gopt.finalNode.ChildOptions)\n\t\tif err != nil {\n\t\t\treturn err\n\t\t}\n\t}\n\tif gopt.finalNode.CommandFn != nil {", "required options not enforced for sub-sub-commands"),
 ("C11-required-error-not-wrapped", "C11", "user.go", "\t\t\treturn fmt.Errorf(\"%w%s\", ErrorParsing, err.Error())\n\t\t}\n\t}\n\treturn nil\n}", "\t\t\treturn fmt.Errorf(\"%s\", err.Error())\n\t\t}\n\t}\n\treturn nil\n}", "missing-required error no longer wraps ErrorParsing"),
 ("C12-bool-env-case-sensitive", "C12", "user_options.go", "v := strings.ToLower(value)", "v := strings.TrimSpace(value)", "bool environment text must be lower case"),
 ("C12-env-after-cli-for-optional", "C12", "internal/option/option.go", "func (opt *Option) SetCalled(usedAlias string) *Option {\n\topt.Called = true", "func (opt *Option) SetCalled(usedAlias string) *Option {\n\tif opt.IsOptional && opt.EnvVar != \"\" && usedAlias == opt.EnvVar {\n\t\topt.UsedAlias = usedAlias\n\t\treturn opt\n\t}\n\topt.Called = true", "optional-value options set through the environment are not reported as called"),
 ("C13-inprogress-child-counts-as-done", "C13", "dag/dag.go", "\t\t\tif child.status == runInProgress {\n\t\t\t\tchildPending = true\n\t\t\t}\n\t\t}\n\t\tif !childPending {", "\t\t\tif child.status == runInProgress && len(vertex.Children) < 2 {\n\t\t\t\tchildPending = true\n\t\t\t}\n\t\t}\n\t\tif !childPending {", "with >=2 dependencies an in-progress dependency no longer blocks"),
 ("C13-retry-after-success", "C13", "dag/dag.go", "\t\t\t\t\tif err == nil {\n\t\t\t\t\t\tbreak\n\t\t\t\t\t}\n\t\t\t\t\tif err != nil && i < v.Retries {", "\t\t\t\t\tif err == nil && i > 0 {\n\t\t\t\t\t\tbreak\n\t\t\t\t\t}\n\t\t\t\t\tif err == nil && v.Retries == 0 {\n\t\t\t\t\t\tbreak\n\t\t\t\t\t}\n\t\t\t\t\tif err != nil && i < v.Retries {", "a task with retries that succeeds at the first attempt is run again"),
 ("C14-skipparents-not-recursive", "C14", "dag/dag.go", "\t\tc.status = runSkip\n\t\tskipParents(c)", "\t\tc.status = runSkip", "ErrorSkipParents only skips direct dependents"),
 ("C14-skipped-not-reported", "C14", "dag/dag.go", "\t\t\t\t\tdone <- IDErr{v.ID, ErrorTaskSkipped}", "\t\t\t\t\tdone <- IDErr{v.ID, nil}", "tasks skipped after a failure are not reported"),
 ("C14-context-check-after-launch", "C14", "dag/dag.go", "\t\t\tif !ok {\n\t\t\t\ttime.Sleep(g.TickerDuration)", "\t\t\tif !ok || handledContext && false {\n\t\t\t\ttime.Sleep(g.TickerDuration)", "no-op control (must NOT be detected)"),
 ("C15-semaphore-plus-one", "C15", "dag/dag.go", "semaphore := make(chan struct{}, g.maxParallel)", "semaphore := make(chan struct{}, g.maxParallel+1)", "concurrency limit off by one"),
 ("C15-task-lock-dropped", "C15", "dag/dag.go", "\t\t\t\tv.Task.Lock()\n\t\t\t\tdefer v.Task.Unlock()\n", "", "per-Task mutex removed"),
 ("C15-flush-at-end-only", "C15", "dag/dag.go", "\t\t\t\t\tif g.bufferOutput {\n\t\t\t\t\t\tg.bufferMutex.Lock()\n\t\t\t\t\t\t_, _ = combinedBuffer.WriteTo(g.bufferWriter)\n\t\t\t\t\t\tg.bufferMutex.Unlock()\n\t\t\t\t\t}", "\t\t\t\t\tif g.bufferOutput && (err == nil || i == v.Retries) {\n\t\t\t\t\t\tg.bufferMutex.Lock()\n\t\t\t\t\t\t_, _ = combinedBuffer.WriteTo(g.bufferWriter)\n\t\t\t\t\t\tg.bufferMutex.Unlock()\n\t\t\t\t\t}", "control: attempts' outputs merged into one flush (blocks stay contiguous; may or may not be detected)"),
 ("C15-serial-check-dropped", "C15", "dag/dag.go", "\t\t\tfor _, child := range vertex.Children {\n\t\t\t\tif child.status == runInProgress {\n\t\t\t\t\treturn child, false, false\n\t\t\t\t}\n\t\t\t}\n", "", "control: redundant half of the serial check removed (behaviour preserving; must NOT be detected)"),
 ("C16-cycle-check-removed", "C16", "dag/dag.go", "\t_, err := g.DepthFirstSort()\n\tif err != nil {\n\t\treturn err\n\t}\n", "\t_, _ = g.DepthFirstSort()\n", "cycle check before the run loop removed"),
 ("C16-dfs-emits-before-children", "C16", "dag/dag.go", "\t(*status)[v.ID] = visited\n\n\tfor _, child := range v.Children {", "\t(*status)[v.ID] = visited\n\tif len(v.Children) > 2 {\n\t\t*sorted = append(*sorted, v)\n\t}\n\n\tfor _, child := range v.Children {", "DepthFirstSort emits vertices with >2 dependencies before them (and twice)"),
 ("C17-suggestions-unfiltered", "C17", "api.go", "\t\t\t\tfor _, e := range currentProgramNode.Suggestions {\n\t\t\t\t\tif strings.HasPrefix(e, iterator.Value()) {", "\t\t\t\tfor _, e := range currentProgramNode.Suggestions {\n\t\t\t\t\tif strings.HasPrefix(e, iterator.Value()) || len(currentProgramNode.ChildCommands) == 0 {", "static suggestions not filtered by the typed prefix on leaf commands"),
 ("C17-value-sort-dropped", "C17", "api.go", "\t\t\t\t\tsort.Strings(completions)\n\n\t\t\t\t\t// If there is a single completion", "\t\t\t\t\tif !strings.Contains(partialOption, \"=\") {\n\t\t\t\t\t\tsort.Strings(completions)\n\t\t\t\t\t}\n\n\t\t\t\t\t// If there is a single completion", "control: first of two sorts skipped for value completions (second sort still applies; must NOT be detected)"),
 ("C18-alias-filter-by-length", "C18", "user_help.go", "\t\tif k != option.Name {\n\t\t\tcontinue\n\t\t}", "\t\tif k != option.Name && len(k) <= len(option.Name) {\n\t\t\tcontinue\n\t\t}", "aliases longer than the option name are listed as separate options"),
 ("C18-env-omitted-for-required", "C18", "internal/help/help.go", "\t\t\tif opt.EnvVar != \"\" {\n\t\t\t\tif opt.Description != \"\" {\n\t\t\t\t\ttxt += \" \"\n\t\t\t\t}\n\t\t\t\ttxt += fmt.Sprintf(\"(env: %s)\", opt.EnvVar)\n\t\t\t}", "\t\t\tif opt.EnvVar != \"\" && opt.Description != \"\" {\n\t\t\t\ttxt += \" \"\n\t\t\t\ttxt += fmt.Sprintf(\"(env: %s)\", opt.EnvVar)\n\t\t\t}", "env of required options without description not shown"),
 ("C19-singledash-empty-index", "C19", "isoption.go", "\t\t\t_, size := utf8.DecodeRuneInString(match[2])\n\t\t\topts := []optionPair{{Option: match[2][:size]}}", "\t\t\t_, size := utf8.DecodeRuneInString(match[2])\n\t\t\tif strings.HasSuffix(match[2], \"-\") && len(match[3]) > 1 {\n\t\t\t\tsize = len(match[2]) + 1\n\t\t\t}\n\t\t\topts := []optionPair{{Option: match[2][:size]}}", "slice bounds panic for SingleDash tokens like -x-=ab"),
 ("C20-ambiguous-candidates-unsorted", "C20", "api.go", "\t\t\t\t\tsort.Strings(optionMatches)\n\t\t\t\t\terr := fmt.Errorf(text.ErrorAmbiguousArgument", "\t\t\t\t\terr := fmt.Errorf(text.ErrorAmbiguousArgument", "ambiguity error lists candidates in map order"),
 ("C20-command-completions-unsorted", "C20", "api.go", "\t\t\tsort.Strings(completions)\n\t\t\t// Add trailing space to force next completion", "\t\t\t// Add trailing space to force next completion", "command/argument completions in map order"),
]


def sh(cmd, cwd=None, timeout=3600):
    p = subprocess.run(cmd, cwd=cwd, env=ENV, shell=isinstance(cmd, str), stdout=subprocess.PIPE, stderr=subprocess.STDOUT, text=True, errors="replace", timeout=timeout)
    return p.returncode, p.stdout


def main():
    sel = sys.argv[1:]
    out_path = os.path.join(VERIF, "seeded", "self-results.json")
    os.makedirs(os.path.dirname(out_path), exist_ok=True)
    results = {}
    if os.path.exists(out_path):
        results = json.load(open(out_path))
    rc, st = sh(["git", "-C", REPO, "status", "--short"])
    if st.strip():
        print("repo not clean", st)
        return 1
    for name, pid, f, old, new, desc in MUTANTS:
        if sel and not any(name.startswith(s) for s in sel):
            continue
        path = os.path.join(REPO, f)
        src = open(path).read()
        if src.count(old) != 1:
            print(f"{name}: pattern found {src.count(old)} times - skipped")
            results[name] = {"error": "pattern"}
            continue
        try:
            open(path, "w").write(src.replace(old, new))
            rcb, outb = sh("go build ./... 2>&1 | tail -5", cwd=REPO)
            rcs, outs = sh([os.path.join(VERIF, "baseline.sh"), REPO])
            rcd, diff = sh(["git", "-C", REPO, "diff"])
            t0 = time.time()
            rcc, outc = sh([os.path.join(VERIF, "check"), pid, "quick"], cwd=VERIF)
            lines = [l[:300] for l in outc.splitlines() if l.startswith("VIOLATION") or l.startswith("  what:") or l.startswith("INCONCLUSIVE") or l.startswith("INFRA")]
            results[name] = {"property": pid, "description": desc, "builds": "rror" not in outb, "suite_passes": rcs == 0, "check_rc": rcc, "detected": rcc == 1, "wall": round(time.time() - t0, 1), "lines": lines[:3]}
            d = os.path.join(VERIF, "seeded", "self-" + name)
            os.makedirs(d, exist_ok=True)
            open(os.path.join(d, "patch.diff"), "w").write(diff)
            print(f"{name}: builds={results[name]['builds']} suite_passes={rcs == 0} detected={rcc == 1} rc={rcc} {lines[:1]}")
        finally:
            sh(["git", "-C", REPO, "checkout", "--", "."])
        json.dump(results, open(out_path, "w"), indent=1)
    return 0


if __name__ == "__main__":
    sys.exit(main())
