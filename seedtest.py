#!/usr/bin/env python3
"""Validate a seeded change and run the property checks against it.

  seedtest.py validate <dir>            <dir> holds patch.diff, zz_seed_demo_test.go, where.txt
                                        -> scratch worktree: suite passes with the patch, demo fails with / passes without
  seedtest.py detect <dir> <ID> [tier] [--all]
                                        -> apply patch to /repo, run ./check <ID> <tier> (and, with --all, every other property), revert
"""
import json
import os
import shutil
import subprocess
import sys
import tempfile
import time

VERIF = os.path.dirname(os.path.abspath(__file__))
REPO = "/repo"
ENV = dict(os.environ, GOFLAGS="-mod=mod", GOPROXY="off", GOSUMDB="off", GOTOOLCHAIN="local", VERIF_EVIDENCE_DIR=os.path.join(os.path.dirname(os.path.abspath(__file__)), "work", "evidence-experiments"))


def sh(cmd, cwd=None, timeout=1800):
    p = subprocess.run(cmd, cwd=cwd, env=ENV, shell=isinstance(cmd, str), stdout=subprocess.PIPE, stderr=subprocess.STDOUT, text=True, errors="replace", timeout=timeout)
    return p.returncode, p.stdout


def validate(d):
    d = os.path.abspath(d)
    patch = os.path.join(d, "patch.diff")
    demo = os.path.join(d, "zz_seed_demo_test.go")
    where = open(os.path.join(d, "where.txt")).read().strip() if os.path.exists(os.path.join(d, "where.txt")) else "."
    wt = tempfile.mkdtemp(prefix="seedval-", dir="/tmp")
    os.rmdir(wt)
    res = {"dir": d}
    try:
        rc, out = sh(["git", "-C", REPO, "worktree", "add", "-q", "--detach", wt, "HEAD"])
        if rc != 0:
            return {"error": "worktree: " + out}
        demo_dst = os.path.join(wt, where, "zz_seed_demo_test.go")
        pkg = "./" + where if where != "." else "."
        # demo on the original code
        shutil.copy(demo, demo_dst)
        rc, out = sh(f"go test -count=1 -run . {pkg} 2>&1 | tail -30", cwd=wt)
        rc0, out0 = sh(["go", "test", "-count=1", pkg], cwd=wt)
        res["demo_passes_without"] = rc0 == 0
        if rc0 != 0:
            res["demo_without_output"] = out0[-1500:]
        os.remove(demo_dst)
        # apply
        rc, out = sh(["git", "apply", "--whitespace=nowarn", patch], cwd=wt)
        if rc != 0:
            res["error"] = "patch does not apply: " + out
            return res
        rc, out = sh(["git", "status", "--short"], cwd=wt)
        res["touched"] = out.split()
        rc, out = sh("go build ./... && go vet ./... 2>&1 | tail -5", cwd=wt)
        res["builds"] = rc == 0
        rc, out = sh([os.path.join(VERIF, "baseline.sh"), wt])
        res["suite_passes_with"] = rc == 0
        res["suite_line"] = out.strip().splitlines()[0] if out.strip() else ""
        shutil.copy(demo, demo_dst)
        rc1, out1 = sh(["go", "test", "-count=1", pkg], cwd=wt)
        res["demo_fails_with"] = rc1 != 0
        res["demo_with_output"] = out1[-1200:]
        res["valid"] = bool(res.get("builds") and res["suite_passes_with"] and res["demo_fails_with"] and res["demo_passes_without"])
        return res
    finally:
        sh(["git", "-C", REPO, "worktree", "remove", "--force", wt])
        shutil.rmtree(wt, ignore_errors=True)


def detect(d, pid, tier="quick", all_props=False):
    d = os.path.abspath(d)
    patch = os.path.join(d, "patch.diff")
    rc, out = sh(["git", "-C", REPO, "status", "--short"])
    if out.strip():
        return {"error": "/repo working tree not clean: " + out}
    results = {}
    try:
        rc, out = sh(["git", "-C", REPO, "apply", "--whitespace=nowarn", patch])
        if rc != 0:
            return {"error": "patch does not apply to /repo: " + out}
        props = [pid]
        if all_props:
            sys.path.insert(0, VERIF)
            from checks_table import CHECKS
            props = [pid] + [p for p in sorted(CHECKS) if p != pid]
        for p in props:
            t0 = time.time()
            rc, out = sh([os.path.join(VERIF, "check"), p, tier], cwd=VERIF, timeout=7200)
            lines = [l for l in out.splitlines() if l.startswith("VIOLATION") or l.startswith("  what:") or l.startswith("INCONCLUSIVE") or l.startswith("INFRA")]
            results[p] = {"rc": rc, "wall": round(time.time() - t0, 1), "lines": [l[:400] for l in lines[:4]]}
    finally:
        sh(["git", "-C", REPO, "checkout", "--", "."])
        rc, out = sh(["git", "-C", REPO, "status", "--short"])
        if out.strip():
            results["revert_problem"] = out
    return results


def detect_scratch(d, pids, tier="quick"):
    """Same as detect but in a scratch worktree (VERIF_REPO), leaving /repo alone; several may run in parallel."""
    d = os.path.abspath(d)
    patch = os.path.join(d, "patch.diff")
    wt = tempfile.mkdtemp(prefix="seeddet-", dir="/tmp")
    os.rmdir(wt)
    results = {}
    try:
        rc, out = sh(["git", "-C", REPO, "worktree", "add", "-q", "--detach", wt, "HEAD"])
        if rc != 0:
            return {"error": "worktree: " + out}
        rc, out = sh(["git", "apply", "--whitespace=nowarn", patch], cwd=wt)
        if rc != 0:
            return {"error": "patch does not apply: " + out}
        env = dict(ENV, VERIF_REPO=wt)
        for p in pids:
            t0 = time.time()
            pr = subprocess.run([os.path.join(VERIF, "check"), p, tier], cwd=VERIF, env=env, stdout=subprocess.PIPE, stderr=subprocess.STDOUT, text=True, errors="replace", timeout=7200)
            lines = [l for l in pr.stdout.splitlines() if l.startswith("VIOLATION") or l.startswith("  what:") or l.startswith("INCONCLUSIVE") or l.startswith("INFRA")]
            results[p] = {"rc": pr.returncode, "wall": round(time.time() - t0, 1), "lines": [l[:400] for l in lines[:4]]}
    finally:
        sh(["git", "-C", REPO, "worktree", "remove", "--force", wt])
        shutil.rmtree(wt, ignore_errors=True)
    return results


def main():
    a = sys.argv[1:]
    if a[0] == "detect-scratch":
        print(json.dumps(detect_scratch(a[1], a[2].split(","), a[3] if len(a) > 3 else "quick"), indent=1))
        return
    if a[0] == "validate":
        print(json.dumps(validate(a[1]), indent=1))
    elif a[0] == "detect":
        tier = "quick"
        allp = "--all" in a
        a = [x for x in a if x != "--all"]
        if len(a) > 3:
            tier = a[3]
        print(json.dumps(detect(a[1], a[2], tier, allp), indent=1))


if __name__ == "__main__":
    main()
