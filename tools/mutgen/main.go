// mutgen lists, or applies one of, the syntactic mutants of a Go source file.
//
//	mutgen list  <file.go>            -> one JSON line per mutant {"n":..,"op":..,"line":..,"old":..,"new":..}
//	mutgen apply <file.go> <n> <out>  -> writes the file with mutant n applied to <out>
//
// Operators: relational/logical/arithmetic operator swaps, negated if-conditions, deleted simple statements
// (call, assignment, inc/dec, break/continue), boolean and 0/1 literal flips. Only the standard library is used.
package main

import (
	"encoding/json"
	"fmt"
	"go/ast"
	"go/parser"
	"go/token"
	"os"
	"sort"
	"strconv"
)

type mut struct {
	N        int    `json:"n"`
	Op       string `json:"op"`
	Line     int    `json:"line"`
	Old      string `json:"old"`
	New      string `json:"new"`
	from, to int
}

var swaps = map[token.Token][]token.Token{
	token.EQL: {token.NEQ}, token.NEQ: {token.EQL},
	token.LSS: {token.LEQ, token.GEQ}, token.LEQ: {token.LSS}, token.GTR: {token.GEQ, token.LEQ}, token.GEQ: {token.GTR},
	token.LAND: {token.LOR}, token.LOR: {token.LAND},
	token.ADD: {token.SUB}, token.SUB: {token.ADD},
}

func main() {
	if len(os.Args) < 3 {
		fmt.Fprintln(os.Stderr, "usage: mutgen list <file> | apply <file> <n> <out>")
		os.Exit(2)
	}
	file := os.Args[2]
	src, err := os.ReadFile(file)
	if err != nil {
		panic(err)
	}
	fset := token.NewFileSet()
	f, err := parser.ParseFile(fset, file, src, parser.ParseComments)
	if err != nil {
		panic(err)
	}
	off := func(p token.Pos) int { return fset.Position(p).Offset }
	var ms []mut
	add := func(op string, from, to int, repl string, pos token.Pos) {
		old := string(src[from:to])
		if len(old) > 160 {
			old = old[:160] + "..."
		}
		ms = append(ms, mut{Op: op, Line: fset.Position(pos).Line, Old: old, New: repl, from: from, to: to})
	}
	ast.Inspect(f, func(n ast.Node) bool {
		switch x := n.(type) {
		case *ast.BinaryExpr:
			if alts, ok := swaps[x.Op]; ok {
				// string concatenation: skip '+' between string-ish literals
				if x.Op == token.ADD {
					if bl, ok := x.X.(*ast.BasicLit); ok && bl.Kind == token.STRING {
						return true
					}
					if bl, ok := x.Y.(*ast.BasicLit); ok && bl.Kind == token.STRING {
						return true
					}
				}
				for _, a := range alts {
					o := off(x.OpPos)
					add("swap "+x.Op.String()+" -> "+a.String(), o, o+len(x.Op.String()), a.String(), x.OpPos)
				}
			}
		case *ast.IfStmt:
			c0, c1 := off(x.Cond.Pos()), off(x.Cond.End())
			add("negate-if", c0, c1, "!("+string(src[c0:c1])+")", x.Cond.Pos())
		case *ast.BlockStmt:
			for _, s := range x.List {
				del := false
				switch y := s.(type) {
				case *ast.ExprStmt:
					_, del = y.X.(*ast.CallExpr)
				case *ast.AssignStmt:
					del = y.Tok != token.DEFINE
				case *ast.IncDecStmt:
					del = true
				case *ast.BranchStmt:
					del = y.Tok == token.BREAK || y.Tok == token.CONTINUE
				}
				if del {
					add("delete-stmt", off(s.Pos()), off(s.End()), "", s.Pos())
				}
			}
		case *ast.CaseClause:
			for _, s := range x.Body {
				switch y := s.(type) {
				case *ast.ExprStmt:
					if _, ok := y.X.(*ast.CallExpr); ok {
						add("delete-stmt", off(s.Pos()), off(s.End()), "", s.Pos())
					}
				case *ast.AssignStmt:
					if y.Tok != token.DEFINE {
						add("delete-stmt", off(s.Pos()), off(s.End()), "", s.Pos())
					}
				case *ast.BranchStmt:
					if y.Tok == token.BREAK || y.Tok == token.CONTINUE {
						add("delete-stmt", off(s.Pos()), off(s.End()), "", s.Pos())
					}
				}
			}
		case *ast.Ident:
			if x.Name == "true" || x.Name == "false" {
				r := "true"
				if x.Name == "true" {
					r = "false"
				}
				add("flip-bool", off(x.Pos()), off(x.End()), r, x.Pos())
			}
		case *ast.BasicLit:
			if x.Kind == token.INT && (x.Value == "0" || x.Value == "1") {
				r := "1"
				if x.Value == "1" {
					r = "0"
				}
				add("flip-01", off(x.Pos()), off(x.End()), r, x.Pos())
			}
		}
		return true
	})
	sort.SliceStable(ms, func(i, j int) bool { return ms[i].from < ms[j].from })
	for i := range ms {
		ms[i].N = i
	}
	switch os.Args[1] {
	case "list":
		enc := json.NewEncoder(os.Stdout)
		for _, m := range ms {
			enc.Encode(m)
		}
	case "apply":
		n, _ := strconv.Atoi(os.Args[3])
		m := ms[n]
		out := append(append(append([]byte{}, src[:m.from]...), m.New...), src[m.to:]...)
		if err := os.WriteFile(os.Args[4], out, 0o644); err != nil {
			panic(err)
		}
	}
}
