#!/usr/bin/env python3
import json, collections, sys
V='/verif/seeded/mutsweep'
s1=json.load(open(f'{V}/stage1.json')); s2=json.load(open(f'{V}/stage2.json'))
TRIAGE=json.load(open(f'{V}/triage.json'))   # "file:line" -> reason
c1=collections.Counter(v['stage1'] for v in s1.values())
c2=collections.Counter(v['stage2'] for v in s2.values())
by=collections.Counter(v.get('by') for v in s2.values() if v['stage2']=='detected')
out=[]
out.append('# Automatic mutation sweep\n')
out.append('`tools/mutgen` enumerates syntactic mutants (operator swaps, negated `if` conditions, deleted simple statements, boolean and 0/1 literal flips) of ten non-test source files of the library; `mutsweep.py stage1` builds each one in a scratch copy and runs the repository\'s own suite, `mutsweep.py stage2` runs the quick checks of the mutant\'s domain (strongest first, until one reports a violation) against every mutant the suite lets through. `internal/completion` is imported by nothing (dead code with respect to every property) and was left out of stage 2.\n')
out.append(f'* mutants: {len(s1)}; do not build: {c1["no-build"]}; killed by the repository suite: {c1["suite-kill"]}; pass the suite: {c1["suite-pass"]}')
n_dead=sum(1 for v in s1.values() if v['stage1']=='suite-pass' and v['file'].startswith('internal/completion'))
out.append(f'* of the suite survivors, {n_dead} are in the dead package; stage 2 was run on {len(s2)} of the remaining {c1["suite-pass"]-n_dead} (time-boxed; order: by file, then mutant number as text)')
out.append(f'* stage 2: reported by a quick check: {c2["detected"]} (first reporting check: {dict(by)}); reported by none: {c2["survived"]}\n')
out.append('## Survivors of both stages, triaged by hand\n')
out.append('| mutant | line | change | verdict |\n|---|---|---|---|')
untri=0
for k,v in sorted(s2.items(), key=lambda kv:(kv[1]['file'],kv[1]['line'],kv[1]['n'])):
    if v['stage2']!='survived': continue
    key=f"{v['file']}:{v['line']}"
    r=TRIAGE.get(k) or TRIAGE.get(key)
    if not r: untri+=1; r='(not triaged)'
    old=v['old'].replace('\n',' ').replace('|','\\|')[:60]; new=v['new'].replace('|','\\|')[:30]
    out.append(f"| {k} | {v['line']} | {v['op']}: `{old}` -> `{new}` | {r} |")
out.append('')
open(f'{V}/README.md','w').write('\n'.join(out)+'\n')
print('untriaged',untri, 'survived',c2['survived'],'detected',c2['detected'])
