#!/usr/bin/env python3
# regress.py <workers> : every archived independently written change of rounds 1-6 against the CURRENT machinery
# (quick check of the property it targets, scratch worktree) -> seeded/regress-final.json
import json, glob, os, subprocess, sys, concurrent.futures as cf
V='/verif'
items=[]
for m in sorted(glob.glob(f'{V}/seeded/*/meta.json')):
    d=os.path.dirname(m); n=os.path.basename(d)
    if n.startswith(('r7-','self-','refactor-')): continue
    try: meta=json.load(open(m))
    except Exception: continue
    pid=meta.get('breaks_property')
    if not pid or not os.path.exists(f'{d}/patch.diff'): continue
    before=(meta.get('detection_by_own_property_quick') or {}).get('detected')
    items.append((n,pid,before))
out_path=f'{V}/seeded/regress-final.json'
res=json.load(open(out_path)) if os.path.exists(out_path) else {}
def one(it):
    n,pid,before=it
    if n in res: return n,res[n]
    r=subprocess.run(['python3',f'{V}/seedtest.py','detect-scratch',f'{V}/seeded/{n}',pid],capture_output=True,text=True)
    try: d=json.loads(r.stdout)[pid]; rc=d['rc']; first=(d['lines'] or [''])[0][:200]
    except Exception: rc=None; first=r.stdout[-200:]
    return n,{'property':pid,'detected_before':before,'rc':rc,'detected_now':rc==1,'first':first}
with cf.ThreadPoolExecutor(int(sys.argv[1])) as ex:
    for n,r in ex.map(one,items):
        res[n]=r; json.dump(res,open(out_path,'w'),indent=1,sort_keys=True)
        flag='' if r['detected_now']==bool(r['detected_before']) else '   <<<< CHANGED'
        print(n,r['property'],'before',r['detected_before'],'now',r['detected_now'],flag,flush=True)
