#!/usr/bin/env python3
# re-detect with the final machinery: r7final.py <name> ...  (names like r7-C01-A) -> seeded/<name>/final.json
import sys, subprocess, concurrent.futures as cf
V='/verif'
def one(name):
    pid=name.split('-')[1]
    r=subprocess.run(['python3',f'{V}/seedtest.py','detect-scratch',f'{V}/seeded/{name}',pid],capture_output=True,text=True)
    open(f'{V}/seeded/{name}/final.json','w').write(r.stdout)
    return name, r.stdout[:300].replace('\n',' ')
with cf.ThreadPoolExecutor(int(sys.argv[1])) as ex:
    for n,o in ex.map(one,sys.argv[2:]): print(n,o,flush=True)
