#!/usr/bin/env python3
# usage: r7run.py <ID-A> ... : copy from /tmp/r7/out, validate, detect-scratch with own property
import sys, os, shutil, subprocess, json, concurrent.futures as cf
V='/verif'
def one(name):
    src=f'/tmp/r7/out/{name}'; dst=f'{V}/seeded/r7-{name}'
    os.makedirs(dst,exist_ok=True)
    for f in os.listdir(src):
        if os.path.isfile(f'{src}/{f}'): shutil.copy(f'{src}/{f}',f'{dst}/{f}')
    pid=name.split('-')[0]
    r=subprocess.run(['python3',f'{V}/seedtest.py','validate',dst],capture_output=True,text=True)
    open(f'{dst}/validate.json','w').write(r.stdout)
    try: val=json.loads(r.stdout)
    except Exception: val={'valid':False,'raw':r.stdout[-500:]+r.stderr[-500:]}
    if not val.get('valid'): return name,val,None
    r=subprocess.run(['python3',f'{V}/seedtest.py','detect-scratch',dst,pid],capture_output=True,text=True)
    open(f'{dst}/detect.json','w').write(r.stdout)
    try: det=json.loads(r.stdout)
    except Exception: det={'raw':r.stdout[-500:]+r.stderr[-500:]}
    return name,val.get('valid'),det
with cf.ThreadPoolExecutor(4) as ex:
    for name,val,det in ex.map(one,sys.argv[1:]):
        print(name,'valid' if val is True else val, json.dumps(det)[:700] if det else None, flush=True)
