#!/bin/bash
# soak.sh <seed> : every quick check on the unchanged tree with another seed; prints rc per property
export VERIF_EVIDENCE_DIR=/verif/work/evidence-experiments VERIF_SEED=$1
cd /verif
for p in C01 C02 C03 C04 C05 C06 C07 C08 C09 C10 C11 C12 C13 C14 C15 C16 C17 C18 C19 C20; do
  out=$(./check $p quick 2>&1); rc=$?
  echo "seed=$1 $p rc=$rc $(echo "$out" | grep -E 'what:|INCONCLUSIVE|INFRA' | head -2 | cut -c1-300)"
done
