#!/usr/bin/env python3
# builds seeded/r7-*/meta.json from notes.md, validate.json, detect.json (first measurement) and final.json (final machinery)
import json, glob, os
V='/verif'
summary={}
for d in sorted(x for x in glob.glob(f'{V}/seeded/r7-*') if os.path.isdir(x)):
    name=os.path.basename(d); pid=name.split('-')[1]
    def load(f):
        try: return json.load(open(f'{d}/{f}'))
        except Exception: return None
    val=load('validate.json') or {}
    first=(load('detect.json') or {}).get(pid)
    final=(load('final.json') or {}).get(pid)
    notes=open(f'{d}/notes.md').read() if os.path.exists(f'{d}/notes.md') else ''
    old=load('meta.json') or {}
    def det(x):
        if not x: return None
        return {"rc":x["rc"],"detected":x["rc"]==1,"first":(x["lines"][0] if x["lines"] else "")}
    meta={"id":name,"round":7,
      "origin":"sub-agent given only the property text, its own scratch worktree and the opening lines of the notes of all earlier changes against that property (to avoid); asked for a change that reads like a plausible maintainer commit and needs an unusual input, a multi-step history, a definition order or two cooperating sites to manifest",
      "breaks_property":pid,"needs_to_manifest":notes,
      "validated":{"builds":val.get("builds"),"repo_suite_passes_with_change":val.get("suite_passes_with"),"demo_fails_with_change":val.get("demo_fails_with"),"demo_passes_without_change":val.get("demo_passes_without"),"how":"seedtest.py validate (scratch worktree of /repo HEAD 463f22e)"} if val else old.get("validated"),
      "detection_by_own_property_quick_first_pass":det(first) or old.get("detection_by_own_property_quick_first_pass"),
      "detection_by_own_property_quick":det(final) or old.get("detection_by_own_property_quick")}
    if old.get("note"): meta["note"]=old["note"]
    json.dump(meta,open(f'{d}/meta.json','w'),indent=1)
    summary[name]={"valid":bool(val.get("valid")) if val else None,"first":(meta["detection_by_own_property_quick_first_pass"] or {}).get("detected"),"final":(meta["detection_by_own_property_quick"] or {}).get("detected")}
json.dump(summary,open(f'{V}/seeded/r7-summary.json','w'),indent=1)
n=len(summary); print(n,'changes; valid',sum(1 for v in summary.values() if v['valid']),'first',sum(1 for v in summary.values() if v['first']),'final',sum(1 for v in summary.values() if v['final']))
for k,v in summary.items():
    if not v['final']: print('  not (yet) detected by final:',k,v)
