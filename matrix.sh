#!/bin/bash
# Cross-property detection matrix: every seeded change against every property's quick check (scratch worktrees).
# usage: matrix.sh <outdir> [parallel]
OUT=${1:-work/matrix}; P=${2:-4}
mkdir -p "$OUT"
HERE=$(cd "$(dirname "$0")" && pwd)
ALL=$(python3 -c "print(','.join('C%02d'%i for i in range(1,21)))")
ls -d "$HERE"/seeded/C*-[AB] | xargs -P "$P" -I{} sh -c "n=\$(basename {}); python3 $HERE/seedtest.py detect-scratch {} $ALL quick > $OUT/\$n.json 2>&1"
