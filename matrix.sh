#!/bin/bash
# Cross-property detection matrix: every seeded change against the quick check of every property of its
# domain (CLI changes x C01-C12,C17-C20; dag changes x C13-C16), in scratch worktrees.
# usage: matrix.sh <outdir> [parallel]
OUT=${1:-work/matrix}; P=${2:-4}
mkdir -p "$OUT"
HERE=$(cd "$(dirname "$0")" && pwd)
CLI=C01,C02,C03,C04,C05,C06,C07,C08,C09,C10,C11,C12,C17,C18,C19,C20
DAG=C13,C14,C15,C16
ls -d "$HERE"/seeded/C*-[AB] "$HERE"/seeded/r2-C*-[AB] | xargs -P "$P" -I{} sh -c "n=\$(basename {}); if grep -q 'dag/dag.go' {}/patch.diff; then L=$DAG; else L=$CLI; fi; python3 $HERE/seedtest.py detect-scratch {} \$L quick > $OUT/\$n.json 2>&1"
