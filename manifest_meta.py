"""Per-property claims for MANIFEST.json."""
ALL = ["C%02d" % i for i in range(1, 21)]

_HELD = " Held on everything generated in the run (counts in the evidence file); a randomised search, not a proof."
_CLI_NOTE = "Trusted base: the harness (spec builder, observer), rapid's generators, and - where named - the reference model written from the property statements; inputs the model calls unspecified are counted under excluded_not_judged and not judged."
_DAG_NOTE = "Trusted base: the harness task functions, its model of the graph a construction script describes, and the Go race detector. Interleavings inside the scheduler below the granularity of task entry/return are sampled by the runtime, not enumerated; liveness is decided up to a bounded wait."

META = {
 "C01": {
  "text": "Property-based search (rapid; native coverage-guided fuzzing in thorough) over definitions x value texts x spellings x modes. Every generated value text is compared with a by-construction expectation: byte identity for strings, strconv.Atoi/ParseFloat for numbers, an error for non-numbers, flag counts, optional-without-value keeps default." + _HELD,
  "design_ref": "DESIGN.md 4 (C01)", "note": _CLI_NOTE + " strconv is the conversion specification named by the statement.",
  "technique": "property-based testing (rapid) with by-construction oracle + strconv differential; native go fuzzing in thorough"},
 "C02": {
  "text": "Property-based search over (element type, min, max) x occurrences x the token kinds the statement enumerates after the option; values, order, map key/value split, remaining and error-ness compared with the consumption rule transcribed from the statement." + _HELD,
  "design_ref": "DESIGN.md 4 (C02)", "note": _CLI_NOTE,
  "technique": "property-based testing (rapid) against a reference model of token consumption; rapid-via-native-fuzz in thorough"},
 "C03": {
  "text": "Property-based search over arbitrary argv plans x definitions x 3 modes x 3 unknown modes x require-order. Two oracles: model-free (remaining is a position-wise subsequence of argv: nothing invented, altered, reordered, duplicated) and exact equality with the reference model's list of not-wholly-consumed tokens." + _HELD,
  "design_ref": "DESIGN.md 4 (C03)", "note": _CLI_NOTE,
  "technique": "property-based testing (rapid): subsequence/multiplicity invariant + reference-model equality; rapid-via-native-fuzz in thorough"},
 "C04": {
  "text": "Metamorphic property-based search: Parse(pre ++ `--` ++ tail) must equal Parse(pre) with tail appended verbatim (same success, option state, warnings, dispatched function), for dangerous contexts before `--` and hostile tails." + _HELD,
  "design_ref": "DESIGN.md 4 (C04)", "note": _CLI_NOTE + " The model is only used to tell whether a require-order stop precedes the terminator and to exclude `--` standing as a still-missing mandatory value (excepted by the statement).",
  "technique": "metamorphic property-based testing (rapid): two runs of the real parser related by the statement"},
 "C05": {
  "text": "Property-based search over prefix-rich name sets; within each case every prefix of every visible name/alias is tried in every spelling (exhaustive per case). Oracle: the set of names with that prefix computed by the harness: unique => identical to the full-name run and CalledAs = full name; exact name wins; ambiguous => error listing all candidates and no state change." + _HELD,
  "design_ref": "DESIGN.md 4 (C05)", "note": "Trusted base: harness + rapid; no reference model involved.",
  "technique": "property-based testing (rapid) with per-case exhaustive prefix enumeration; metamorphic (prefix vs full name) + independent prefix-set oracle"},
 "C06": {
  "text": "Property-based search over definitions with alias lists and structured argv plans: run as written vs. run with every occurrence rewritten to the primary name (equal except CalledAs); by-construction Called/CalledAs/default expectations for every option at every level through every key; pointer, Var target and Value() agree (also under SetMapKeysToLower and SetValue pre-sets); parsing the same command line twice on one object leaves Called/CalledAs unchanged." + _HELD,
  "design_ref": "DESIGN.md 4 (C06)", "note": _CLI_NOTE + " The model only confirms that the planned occurrences are the ones the command line addresses.",
  "technique": "metamorphic property-based testing (rapid) + by-construction non-interference invariant"},
 "C07": {
  "text": "Metamorphic property-based search: a single-dash token vs. its documented rewriting in Normal, Bundling and SingleDash mode, and long-only command lines across the three modes; complete observable outcome compared (values, Called, CalledAs, remaining, warnings, dispatch)." + _HELD,
  "design_ref": "DESIGN.md 4 (C07)", "note": "Trusted base: harness + rapid; model-free. Only the statement's preconditions are used (bundled leading letters are declared flags; head letters are declared options).",
  "technique": "metamorphic property-based testing (rapid); rapid-via-native-fuzz in thorough"},
 "C08": {
  "text": "Property-based search over argv rich in unknown long/short/bundled options at any position relative to values, command tokens, wrappers and `--`; the reference model decides which tokens are unknown at their level and which is first; Fail => error naming it, Warn => warning for each + token in remaining, Pass => token in remaining, known options still honoured." + _HELD,
  "design_ref": "DESIGN.md 4 (C08)", "note": _CLI_NOTE,
  "technique": "property-based testing (rapid) against a reference model; rapid-via-native-fuzz in thorough"},
 "C09": {
  "text": "Metamorphic property-based search: with require-order, Parse(pre ++ stop ++ tail) must leave the option state of Parse(pre) on the same definition without require-order and return remaining(pre) ++ stop ++ tail verbatim; whether a candidate is a stop token is established model-free on the real parser without require-order." + _HELD,
  "design_ref": "DESIGN.md 4 (C09)", "note": "Trusted base: harness + rapid; model-free.",
  "technique": "metamorphic property-based testing (rapid) against the non-require-order parser"},
 "C10": {
  "text": "Property-based search over command trees and argv (options around command tokens, command names as values/positionals/after `--`/after the stop point); instrumented CommandFns record every invocation; exactly one invocation of the command the reference model addresses, with the caller's context, Parse's remaining and the model's option values/Called flags seen through the passed GetOpt." + _HELD,
  "design_ref": "DESIGN.md 4 (C10)", "note": _CLI_NOTE,
  "technique": "property-based testing (rapid) with instrumented command functions + reference model of the addressed command"},
 "C11": {
  "text": "Property-based search with by-construction expectations: the generator decides which required options of the selected level are supplied (name/alias/prefix/env, at any level along the path) and how help is requested (option, alias, abbreviation, help command, help <topic>, unknown topic); errors.Is(ErrorParsing), custom message, zero invocations, exact help text, ErrorHelpCalled." + _HELD,
  "design_ref": "DESIGN.md 4 (C11)", "note": _CLI_NOTE + " The model filters plans whose tokens are swallowed as values.",
  "technique": "property-based testing (rapid) with by-construction oracle and instrumented command functions"},
 "C12": {
  "text": "Property-based search plus an exhaustive enumeration of the class product (kind x default x environment text class/pool x CLI form x level) against an independently computed three-way precedence table (value, Called, CalledAs)." + _HELD,
  "design_ref": "DESIGN.md 4 (C12)", "note": "Trusted base: harness + strconv. For environment text invalid for the type only the value is asserted.",
  "technique": "property-based testing (rapid) + exhaustive small-scope enumeration against a precedence table"},
 "C13": {
  "text": "Controlled-scheduler property-based testing: the harness owns completion order and outcomes (generated, shrinkable, replayable); entry invariants checked at every task entry over random graphs x modes x retries; every completion order enumerated exhaustively for all labelled DAGs up to 4 tasks (5 in thorough, success-only); free-running variants under the race detector: plain shared slots for visibility, and two concurrently running graphs over the same Task objects in which tasks that never return nil must keep their dependents from starting in either graph; DepthFirstSort calls in the middle of the definition; a graph extended and Run again after a failure must not enter tasks added on top of failed or never-started ones." + _HELD,
  "design_ref": "DESIGN.md 5 (C13)", "note": _DAG_NOTE,
  "technique": "stateful property-based testing with a harness-owned schedule (rapid) + exhaustive small-scope schedule enumeration + race-detector runs"},
 "C14": {
  "text": "Same controlled scheduler with generated fault sequences (error / ErrorSkipParents / fail-then-succeed) and cancel points: no dependent of a failed or skipping task starts, nothing not-yet-ready starts after cancel() returned, and Run's result is checked exactly (errors.As *Errors, entry per failed task, exactly one ErrorTaskSkipped entry per never-started task outside ErrorSkipParents cover, nil iff clean, ErrorSkipParents alone never makes Run fail; also judged after a confirmed stall once everything was let go). Exhaustive over all DAGs<=4 x outcome assignments x orders." + _HELD,
  "design_ref": "DESIGN.md 5 (C14)", "note": _DAG_NOTE,
  "technique": "fault-injecting stateful property-based testing (rapid) + exhaustive small-scope enumeration of outcomes x completion orders"},
 "C15": {
  "text": "Same controlled scheduler with wide graphs and binding limits: in-flight count at every entry <= SetMaxParallel(m) / 1 in serial mode; buffered output must arrive as contiguous per-attempt blocks although fragments of concurrent tasks are forced to interleave; free-running read-spin-write counter (serial, m=1) and Tasks shared by two concurrently running graphs (also when one graph first learned the id through another Task object) under the race detector; staged runs of one graph (Run, add tasks, SetMaxParallel(new), Run) against the limit in force at each Run; serial mode combined with SetMaxParallel in either order still runs one at a time; two concurrently running graphs buffering into one synchronised writer must deliver whole per-attempt blocks." + _HELD,
  "design_ref": "DESIGN.md 5 (C15)", "note": _DAG_NOTE,
  "technique": "stateful property-based testing with a harness-owned schedule (rapid) + race-detector runs of free-running variants"},
 "C16": {
  "text": "Property-based testing over graph-construction call histories (re-adds, duplicate edges, self/back edges, DepthFirstSort calls in the middle of the definition, SetOutputBuffer) x schedules: Run returns within a bounded wait once everything was released, exactly min(capacity, running+ready) tasks are in flight at every quiescent point (work conservation), cycles are rejected before any task starts with ErrorGraphHasCycle, DepthFirstSort is a valid topological order of the graph described so far; a cycle closed between two Runs of one graph is rejected by the second Run." + _HELD,
  "design_ref": "DESIGN.md 5 (C16)", "note": _DAG_NOTE + " A stall is reported only with its signature and after an isolated replay with a 30 s bound.",
  "technique": "stateful (call-history) property-based testing (rapid) with bounded-wait liveness oracle + exhaustive small-scope enumeration"},
 "C17": {
  "text": "Property-based search over command trees x COMP_LINE texts x bash/zsh, in-process through the exit/writer hook: candidate sets compared as sets with an independent computation (names/aliases with the typed prefix at the level reached; subcommands + static + dynamic suggestions; suggested/valid values), sortedness, exit exactly once with 124, no CommandFn, and every offered option/command is accepted by the real parser at that position (the latter also when the last word stands where an open-ended option before it takes it as a value: no candidate set is asserted there, only that offered commands run as commands)." + _HELD,
  "design_ref": "DESIGN.md 4 (C17)", "note": _CLI_NOTE + " Uses the verif hook (exit function, completion writer). Require-order on the program (the program name is then the stop token) and `--` among earlier words are outside the statement; wrapper commands with require-order are judged until their stop token.",
  "technique": "property-based testing (rapid) with set-equality oracle + parser cross-check; rapid-via-native-fuzz in thorough"},
 "C18": {
  "text": "Property-based search over trees in which every one of the 12 option kinds occurs: the help text of every level is read structurally (sections via exported headers, entries via indentation) and compared with the definition (each option once with exactly its aliases, required section, default, env, synopsis mention, subcommands with descriptions), and compared byte for byte across Help(), help option, help command, help <topic>." + _HELD,
  "design_ref": "DESIGN.md 4 (C18)", "note": "Trusted base: harness help reader; accepted default renderings listed in the evidence assumptions.",
  "technique": "property-based testing (rapid) with a structural reader of the output + cross-path differential"},
 "C19": {
  "text": "Robustness search: rapid over valid random definitions x hostile argv/COMP_LINE/environment (random bytes, 64 KiB tokens, 2000-letter bundles, odd dash tokens, malformed ranges, nil argv) x entry points, plus (thorough) native coverage-guided fuzzing on raw bytes against 12 dense definitions and on rapid's bitstream; oracle: no panic, every call within 60 s (generated sizes bound the cost), failed Parse returns (nil, err), completion leaves through the exit path." + _HELD,
  "design_ref": "DESIGN.md 4 (C19)", "note": "Trusted base: harness recover()/timer. Int ranges with span > 10^4 are outside the stated domain and discarded (counted). A process time-out is exit 2 (inconclusive) unless an isolated replay confirms it.",
  "technique": "fuzzing: property-based (rapid) + native coverage-guided go fuzzing with in-target semantic oracle"},
 "C20": {
  "text": "Property-based search over definitions with >=2 entries in every table and inputs that make several diagnostics possible; each case executed 12 times in-process on fresh definitions (every Go map has its own seed, every range a random start) and all observable outputs (values, remaining, error text, warnings, help text of every level, bash/zsh completion lists) compared byte for byte." + _HELD,
  "design_ref": "DESIGN.md 4 (C20)", "note": "Trusted base: harness. Hidden state is sampled by repetition, not controlled.",
  "technique": "property-based testing (rapid) with repeated-execution differential oracle"},
}


def NOT_APPLICABLE(checks):
    return [{"property_id": p, "reason": "check not built yet in this revision of /verif (work in progress; nothing about the technique prevents it)"} for p in ALL if p not in checks]


NOTES = ("All checks are property-based tests / fuzzers over generated inputs, call histories, schedules and fault sequences with explicit oracles (see DESIGN.md). "
         "./check <ID> <tier> rebuilds the harness against /repo's working tree with -tags verif, replays replays/<ID>/*.json first, then searches. "
         "Exit 1 + VIOLATION line = a failing case was found (stored under work/violations/<ID>/, replayable with ./check --replay); exit 2 = inconclusive infrastructure trouble, never a verdict. "
         "known_findings.json lists 19 witnesses of 12 genuine defects, all repaired by fix: commits in /repo; none is suppressed.")
