"""Per-property claims for MANIFEST.json."""
ALL = ["C%02d" % i for i in range(1, 21)]

META = {
 "C01": {
  "text": "Randomised search (rapid, seeded, shrinking; native coverage-guided fuzzing in the thorough tier) over definitions x value texts x spellings x modes; every generated value text is compared with a by-construction expectation (byte identity for strings, strconv.Atoi/ParseFloat for numbers, error for non-numbers, flag counts). Held on everything generated; not a proof.",
  "design_ref": "DESIGN.md section 4, C01",
  "note": "Trusts strconv as the conversion specification; surroundings are filtered through the reference model (cases it calls unspecified are counted and not judged).",
  "technique": "property-based testing (rapid) with by-construction oracle + strconv differential; native go fuzzing in thorough",
 },
}

def NOT_APPLICABLE(checks):
    return [{"property_id": p, "reason": "check not built yet in this revision of /verif (work in progress; nothing about the technique prevents it)"} for p in ALL if p not in checks]

NOTES = "All checks are property-based tests / fuzzers over generated inputs with explicit oracles (see DESIGN.md). ./check <ID> <tier> rebuilds the harness against /repo's working tree with -tags verif. Exit 2 means inconclusive infrastructure trouble, never a verdict."
