// Package evid collects run statistics (evaluations, distinct non-trivial
// cases, class histograms, exclusions, samples) and writes them, and failing
// cases, to the directory named by VERIF_OUT so the driver can merge them into
// /verif/evidence/<id>.json and /verif/replays/<id>/.
package evid

import (
	"encoding/json"
	"fmt"
	"hash/fnv"
	"os"
	"path/filepath"
	"sort"
	"sync"
)

// Stats accumulates what one sub-check covered.
type Stats struct {
	mu          sync.Mutex
	Property    string         `json:"property"`
	Sub         string         `json:"sub"`
	Rule        string         `json:"rule"`
	Evaluations int            `json:"evaluations"`
	Nontrivial  int            `json:"nontrivial_evaluations"`
	Distinct    int            `json:"distinct_nontrivial"`
	Classes     map[string]int `json:"classes"`
	Excluded    map[string]int `json:"excluded"`
	Samples     []interface{}  `json:"samples"`
	Exhaustive  bool           `json:"exhaustive,omitempty"`
	Extra       map[string]int `json:"extra,omitempty"`
	FP          []uint64       `json:"fingerprints,omitempty"` // only when small; lets the driver union shards
	seen        map[uint64]struct{}
	maxSamples  int
}

// New creates a Stats.
func New(property, sub, rule string) *Stats {
	return &Stats{Property: property, Sub: sub, Rule: rule, Classes: map[string]int{}, Excluded: map[string]int{}, Extra: map[string]int{}, seen: map[uint64]struct{}{}, maxSamples: 6}
}

// Eval counts one case whose check ran to a verdict.
func (s *Stats) Eval() {
	s.mu.Lock()
	s.Evaluations++
	s.mu.Unlock()
}

// NT records a non-trivial case by fingerprint text; returns true when it is new.
func (s *Stats) NT(fingerprint string) bool {
	h := fnv.New64a()
	h.Write([]byte(fingerprint))
	k := h.Sum64()
	s.mu.Lock()
	defer s.mu.Unlock()
	s.Nontrivial++
	if _, ok := s.seen[k]; ok {
		return false
	}
	s.seen[k] = struct{}{}
	s.Distinct = len(s.seen)
	return true
}

// Class increments a class counter.
func (s *Stats) Class(name string) {
	s.mu.Lock()
	s.Classes[name]++
	s.mu.Unlock()
}

// Exclude counts a case that was not judged, with the reason.
func (s *Stats) Exclude(reason string) {
	s.mu.Lock()
	s.Excluded[reason]++
	s.mu.Unlock()
}

// Add increments a free-form counter.
func (s *Stats) Add(name string, n int) {
	s.mu.Lock()
	s.Extra[name] += n
	s.mu.Unlock()
}

// Sample keeps a few cases written out in full (spread over the run: powers of two of the non-trivial count).
func (s *Stats) Sample(v interface{}) {
	s.mu.Lock()
	defer s.mu.Unlock()
	n := s.Nontrivial
	if len(s.Samples) < s.maxSamples && (n&(n-1)) == 0 {
		s.Samples = append(s.Samples, v)
	}
}

// OutDir returns the directory for statistics and failure files.
func OutDir() string {
	d := os.Getenv("VERIF_OUT")
	if d == "" {
		d = os.TempDir()
	}
	return d
}

// Write stores the statistics as stats-<property>-<sub>-<shard>.json.
func (s *Stats) Write() error {
	s.mu.Lock()
	defer s.mu.Unlock()
	if len(s.seen) <= 200000 {
		s.FP = make([]uint64, 0, len(s.seen))
		for k := range s.seen {
			s.FP = append(s.FP, k)
		}
		sort.Slice(s.FP, func(i, j int) bool { return s.FP[i] < s.FP[j] })
	}
	shard := os.Getenv("VERIF_SHARD")
	if shard == "" {
		shard = "0"
	}
	b, err := json.Marshal(s)
	if err != nil {
		// samples may hold invalid UTF-8 etc.; json.Marshal copes (replaces), other errors are reported
		return err
	}
	return os.WriteFile(filepath.Join(OutDir(), fmt.Sprintf("stats-%s-%s-%s.json", s.Property, s.Sub, shard)), b, 0o644)
}

// Failure is the replayable record of a failing case.
type Failure struct {
	Property string          `json:"property"`
	Sub      string          `json:"sub"`
	Message  string          `json:"message"`
	Case     json.RawMessage `json:"case"`
}

// SaveFail writes the failing case; called on every failing execution so the
// last one written is rapid's minimal example.
func SaveFail(property, sub string, c interface{}, msg string) string {
	raw, err := json.Marshal(c)
	if err != nil {
		raw = []byte(`{"marshal_error":` + fmt.Sprintf("%q", err.Error()) + `}`)
	}
	f := Failure{Property: property, Sub: sub, Message: msg, Case: raw}
	b, _ := json.MarshalIndent(f, "", " ")
	shard := os.Getenv("VERIF_SHARD")
	if shard == "" {
		shard = "0"
	}
	p := filepath.Join(OutDir(), fmt.Sprintf("fail-%s-%s-%s.json", property, sub, shard))
	_ = os.WriteFile(p, b, 0o644)
	return p
}
