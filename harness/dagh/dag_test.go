package dagh

import (
	"encoding/json"
	"fmt"
	"os"
	"path/filepath"
	"sort"
	"strings"
	"sync/atomic"
	"testing"

	"pgregory.net/rapid"

	"verif/harness/evid"
)

// ---------------------------------------------------------------------------
// generators

type dagCfg struct {
	MaxN      int
	Density   []int // edge probability in percent, drawn per case
	ErrPct    int
	SkipPct   int
	RetryPct  int
	Modes     []string
	CancelPct int
	ReAdd     int // max extra AddTask calls of known tasks
	DupPct    int
	CyclePct  int
	Buffered  int // percent
	TwoObjPct int
	SortPct   int  // chance of DepthFirstSort calls in the middle of the construction script
	Templates bool // sometimes start from a hand-shaped sub-graph (skip siblings, diamond, star)
}

func genDagCase(t *rapid.T, cfg dagCfg) *DagCase {
	n := rapid.IntRange(1, cfg.MaxN).Draw(t, "n")
	perm := rapid.Permutation(seq(n)).Draw(t, "perm")
	dens := rapid.SampledFrom(cfg.Density).Draw(t, "density")
	deps := make([][]int, n)
	for a := 0; a < n; a++ {
		for b := a + 1; b < n; b++ {
			if rapid.IntRange(0, 99).Draw(t, "edge") < dens {
				// perm[b] depends on perm[a]
				deps[perm[b]] = append(deps[perm[b]], perm[a])
			}
		}
	}
	forced := map[int]string{} // outcomes pinned by a template
	if cfg.Templates && n >= 5 && chance(t, "template", 35) {
		// tasks perm[0..] play the roles; edges are replaced by the template's plus a few random extra ones among the rest
		for i := range deps {
			deps[i] = nil
		}
		role := func(k int) int { return perm[k] }
		switch rapid.IntRange(0, 2).Draw(t, "templatekind") {
		case 0: // two leaves under a parent under a grandparent, plus independent work: top -> p -> {c1, c2}; after -> slow
			c1, c2, pp, top, slow := role(0), role(1), role(2), role(3), role(4)
			deps[pp] = []int{c1, c2}
			deps[top] = []int{pp}
			if n >= 6 {
				deps[role(5)] = []int{slow}
			}
			leaf := rapid.SampledFrom([]string{"skip", "skip", "err", "ok"}).Draw(t, "tleaf")
			forced[c1], forced[c2] = leaf, rapid.SampledFrom([]string{"skip", "skip", "err", "ok"}).Draw(t, "tleaf2")
		case 1: // diamond with a tail: d -> {b, c} -> a ; e -> d
			a, b, cc, d, e := role(0), role(1), role(2), role(3), role(4)
			deps[b], deps[cc] = []int{a}, []int{a}
			deps[d] = []int{b, cc}
			deps[e] = []int{d}
			forced[rapid.SampledFrom([]int{a, b, cc}).Draw(t, "tfail")] = rapid.SampledFrom([]string{"skip", "err"}).Draw(t, "tfailkind")
		case 2: // star: one hub with many dependents, and many independent leaves
			hub := role(0)
			for k := 1; k < n; k++ {
				if k%2 == 1 {
					deps[role(k)] = []int{hub}
				}
			}
			forced[hub] = rapid.SampledFrom([]string{"err", "skip", "ok"}).Draw(t, "thub")
		}
	}
	c := &DagCase{N: n, CancelAfter: -1}
	c.Mode = rapid.SampledFrom(cfg.Modes).Draw(t, "mode")
	if c.Mode == "max" {
		c.Max = rapid.IntRange(1, n+1).Draw(t, "max")
		if chance(t, "smallmax", 40) {
			c.Max = 1 + c.Max%2
		}
	}
	if c.Mode == "serial" && chance(t, "serialextra", 35) {
		c.SerialExtra = rapid.IntRange(2, n+2).Draw(t, "serialextralimit")
		if chance(t, "limitfirst", 50) {
			c.SerialExtra = -c.SerialExtra
		}
	}
	retries := make([]int, n)
	c.Outcomes = make([][]string, n)
	for i := 0; i < n; i++ {
		if chance(t, "hasretry", cfg.RetryPct) {
			retries[i] = rapid.IntRange(1, 2).Draw(t, "retries")
		}
		if f, ok := forced[i]; ok {
			retries[i] = 0
			c.Outcomes[i] = []string{f}
			continue
		}
		for a := 0; a <= retries[i]; a++ {
			errPct := cfg.ErrPct
			if a < retries[i] && errPct < 45 {
				errPct = 45 // an attempt that can be retried fails often: fail-then-succeed sequences
			}
			switch {
			case chance(t, "err", errPct):
				c.Outcomes[i] = append(c.Outcomes[i], rapid.SampledFrom([]string{"err", "err", "err", "errc", "errd"}).Draw(t, "errkind"))
			case chance(t, "skip", cfg.SkipPct):
				c.Outcomes[i] = append(c.Outcomes[i], "skip")
			default:
				c.Outcomes[i] = append(c.Outcomes[i], "ok")
			}
		}
	}
	// construction script
	var calls []Call
	depended := make([]bool, n)
	for i := 0; i < n; i++ {
		for _, d := range deps[i] {
			depended[d] = true
		}
	}
	for i := 0; i < n; i++ {
		if len(deps[i]) == 0 && !depended[i] && retries[i] == 0 {
			calls = append(calls, Call{Op: "add", T: i})
		} else if rapid.IntRange(0, 9).Draw(t, "explicitadd") < 6 {
			calls = append(calls, Call{Op: "add", T: i})
		}
		ds := deps[i]
		for len(ds) > 0 {
			k := rapid.IntRange(1, min(3, len(ds))).Draw(t, "depsplit")
			calls = append(calls, Call{Op: "dep", T: i, Deps: append([]int{}, ds[:k]...)})
			ds = ds[k:]
		}
		if retries[i] > 0 {
			calls = append(calls, Call{Op: "retries", T: i, R: retries[i]})
		}
	}
	calls = rapid.Permutation(calls).Draw(t, "scriptorder")
	if cfg.ReAdd > 0 {
		k := rapid.IntRange(0, cfg.ReAdd).Draw(t, "nreadd")
		for j := 0; j < k; j++ {
			pos := rapid.IntRange(0, len(calls)).Draw(t, "readdpos")
			tk := rapid.IntRange(0, n-1).Draw(t, "readdtask")
			calls = append(calls[:pos], append([]Call{{Op: "add", T: tk}}, calls[pos:]...)...)
		}
		if chance(t, "twoobj", cfg.TwoObjPct) {
			c.TwoTaskObjs = true
		}
	}
	if chance(t, "dup", cfg.DupPct) {
		var depCalls []int
		for k, cl := range calls {
			if cl.Op == "dep" {
				depCalls = append(depCalls, k)
			}
		}
		if len(depCalls) > 0 {
			k := rapid.SampledFrom(depCalls).Draw(t, "dupcall")
			pos := rapid.IntRange(k+1, len(calls)).Draw(t, "duppos")
			dup := Call{Op: "dep", T: calls[k].T, Deps: []int{calls[k].Deps[0]}}
			calls = append(calls[:pos], append([]Call{dup}, calls[pos:]...)...)
		}
	}
	if chance(t, "cycle", cfg.CyclePct) {
		a := rapid.IntRange(0, n-1).Draw(t, "cyca")
		b := rapid.IntRange(0, n-1).Draw(t, "cycb")
		// edge a -> b closes a cycle when b already (transitively) depends on a, or a == b
		pos := rapid.IntRange(0, len(calls)).Draw(t, "cycpos")
		calls = append(calls[:pos], append([]Call{{Op: "dep", T: a, Deps: []int{b}}}, calls[pos:]...)...)
	}
	// some edges are declared through Graph.Task(id) look-ups when every task involved is already known
	known := make([]bool, n)
	for k := range calls {
		cl := &calls[k]
		switch cl.Op {
		case "add", "retries":
			known[cl.T] = true
		case "dep":
			all := known[cl.T]
			for _, d := range cl.Deps {
				all = all && known[d]
			}
			if all && chance(t, "lookup", 25) {
				cl.Op = "depl"
			} else if cfg.ReAdd > 0 && chance(t, "badlookup", 2) {
				cl.Op = "depl" // may look up a task that is not known yet: a definition error
			}
			known[cl.T] = true
			for _, d := range cl.Deps {
				known[d] = true
			}
		}
	}
	if chance(t, "midsort", cfg.SortPct) {
		// a caller may sort (print the plan, validate) before the definition is complete
		k := rapid.IntRange(1, 2).Draw(t, "nsort")
		for j := 0; j < k; j++ {
			pos := rapid.IntRange(0, len(calls)).Draw(t, "sortpos")
			calls = append(calls[:pos], append([]Call{{Op: "sort"}}, calls[pos:]...)...)
		}
	}
	c.Script = calls
	total := 0
	for i := 0; i < n; i++ {
		total += retries[i] + 1
	}
	c.Choices = rapid.SliceOfN(rapid.IntRange(0, 11), total+2, total+2).Draw(t, "choices")
	c.Settle = make([]bool, len(c.Choices))
	for i := range c.Settle {
		c.Settle[i] = chance(t, "settle", 5)
	}
	if chance(t, "cancel", cfg.CancelPct) {
		c.CancelAfter = rapid.IntRange(0, total).Draw(t, "cancelafter")
	}
	c.Buffered = chance(t, "buffered", cfg.Buffered)
	if c.Buffered && chance(t, "sinkfails", 15) {
		c.SinkFails = true
	}
	return c
}

// chance draws an event with (approximately) the given probability in percent. rapid's integer generators
// are biased towards small values, so percentages are built from fair coin flips; the event needs high
// bits, hence shrinking (towards false) removes it.
func chance(t *rapid.T, label string, pct int) bool {
	if pct <= 0 {
		return false
	}
	v := 0
	for i := 0; i < 7; i++ {
		v <<= 1
		if rapid.Bool().Draw(t, label) {
			v |= 1
		}
	}
	return v >= 128-(pct*128+50)/100
}

func seq(n int) []int {
	out := make([]int, n)
	for i := range out {
		out[i] = i
	}
	return out
}

// ---------------------------------------------------------------------------
// property plumbing

type dprop struct {
	ID, Sub, Rule string
	Gen           func(t *rapid.T) *DagCase
	Tag           string
	NT            func(c *DagCase, r *Result) bool
}

var registry = map[string]*dprop{}

func (p *dprop) register() { registry[p.ID+"/"+p.Sub] = p }

func summarize(c *DagCase, r *Result) map[string]interface{} {
	var h []string
	for _, e := range r.Hist {
		if e.Kind == "enter" || e.Kind == "finish" || e.Kind == "cancel" {
			s := e.Kind
			if e.Task >= 0 {
				s += ":" + taskID(e.Task) + "." + fmt.Sprint(e.Attempt)
			}
			if e.Result != "" {
				s += "=" + e.Result
			}
			h = append(h, s)
		}
	}
	runErr := ""
	if r.RunErr != nil {
		runErr = r.RunErr.Error()
	}
	return map[string]interface{}{"n": c.N, "script": c.Script, "mode": c.Mode, "max": c.Max, "history": h, "run_error": runErr}
}

func (p *dprop) check(c *DagCase, st *evid.Stats) error {
	r := Execute(c)
	st.Eval()
	st.Class("mode:" + c.Mode)
	if r.Retried {
		st.Class("retry")
	}
	if r.FailedSeen {
		st.Class("failure")
	}
	if r.SkipSeen {
		st.Class("skip-parents")
	}
	if r.Cancelled {
		st.Class("cancelled")
	}
	if r.Overlap {
		st.Class("overlap>=2")
	}
	if r.BoundBinding {
		st.Class("bound-binding")
	}
	if r.Model.DefErr {
		st.Class("definition-error")
	}
	if r.Model.Cycle {
		st.Class("cycle")
	}
	if c.SinkFails {
		st.Class("output-writer-fails")
	}
	if c.Buffered {
		st.Class("buffered-output")
		if r.Retried {
			st.Class("buffered-output+retry")
		}
	}
	if r.MidSorts > 0 {
		st.Class("sort-in-the-middle-of-the-definition")
	}
	if p.NT(c, r) {
		var fp strings.Builder
		b, _ := json.Marshal(c.Script)
		fp.Write(b)
		fp.WriteString(c.Mode + fmt.Sprint(c.Max, c.CancelAfter, c.Buffered))
		for _, e := range r.Hist {
			if e.Kind == "enter" || e.Kind == "finish" {
				fmt.Fprintf(&fp, "%s%d.%d%s,", e.Kind[:1], e.Task, e.Attempt, e.Result)
			}
		}
		if st.NT(fp.String()) {
			st.Sample(summarize(c, r))
		}
	}
	for _, v := range r.Viol {
		if v.Prop != p.Tag {
			st.Add("violations-of-other-dag-properties-seen:"+v.Prop, 1)
		}
	}
	if v := r.Has(p.Tag); v != nil {
		d := summarize(c, r)
		b, _ := json.Marshal(d)
		return fmt.Errorf("%s\ncase+history: %s", v.Msg, b)
	}
	if r.Stalled && p.Tag != "C16" && atomic.AddInt32(&stallsSeen, 1) >= 2 {
		// Run does not return on this tree (C16's checks report that). Every further case may cost the stall
		// bounds again and this property cannot be judged without Run's result: stop, inconclusive.
		_ = st.Write()
		fmt.Printf("INCONCLUSIVE: %s/%s: two confirmed stalls without a %s violation; Run does not return on this tree (reported by C16), the property cannot be judged\n", p.ID, p.Sub, p.ID)
		os.Exit(2)
	}
	return nil
}

var stallsSeen int32

func saveFail(id, sub string, c *DagCase, msg string) string {
	return evid.SaveFail(id, sub, c, msg)
}

func (p *dprop) run(t *testing.T) {
	st := evid.New(p.ID, p.Sub, p.Rule)
	defer st.Write()
	track := os.Getenv("VERIF_TRACK_CURRENT") != ""
	rapid.Check(t, func(rt *rapid.T) {
		c := p.Gen(rt)
		if track {
			writeCurrent(p.ID, p.Sub, c)
		}
		if err := p.check(c, st); err != nil {
			path := saveFail(p.ID, p.Sub, c, err.Error())
			rt.Fatalf("%s/%s violated: %v\ncase file: %s", p.ID, p.Sub, err, path)
		}
	})
}

func hasEdge(m *GModel) bool {
	for _, d := range m.Deps {
		if len(d) > 0 {
			return true
		}
	}
	return false
}

var allModes = []string{"parallel", "parallel", "max", "max", "serial"}

var propC13 = &dprop{ID: "C13", Sub: "order", Tag: "C13",
	Rule: "rapid-driven controlled scheduler: random DAG (1-8 tasks; edges along a random permutation) built through a shuffled construction script x mode {parallel, SetMaxParallel(m), serial} x per-attempt outcomes {nil, error, ErrorSkipParents} x retries 0-2 x completion order (which in-flight task returns next is a generated choice) x settle points; entry invariants checked at every task entry; non-trivial = graph has an edge and (>=2 tasks were in flight at once or a retry happened); distinct by (script, mode, full enter/finish history)",
	Gen: func(t *rapid.T) *DagCase {
		return genDagCase(t, dagCfg{MaxN: 8, Density: []int{15, 30, 50, 80}, ErrPct: 8, SkipPct: 4, RetryPct: 25, Modes: allModes, CancelPct: 3, ReAdd: 0, Buffered: 10, SortPct: 15, Templates: true})
	},
	NT: func(c *DagCase, r *Result) bool { return hasEdge(r.Model) && (r.Overlap || r.Retried) },
}

var propC14 = &dprop{ID: "C14", Sub: "faults", Tag: "C14",
	Rule: "same controlled scheduler with fault-heavy cases: outcomes error 25% / ErrorSkipParents 15%, retries, cancel() at a generated point in 35% of cases; entry invariants (no dependent of a failed/skipping task, nothing not-yet-ready after cancel() returned) + exact check of Run's result (errors.As *Errors, one entry wrapping each failed task's error, exactly one ErrorTaskSkipped entry per never-started task not covered by ErrorSkipParents, none for those covered, nil iff nothing failed and no cancellation); non-trivial = a failure, skip or cancellation occurred in a graph with an edge; distinct by (script, mode, history)",
	Gen: func(t *rapid.T) *DagCase {
		switch rapid.IntRange(0, 3).Draw(t, "variant") {
		case 0: // skip-heavy: several ErrorSkipParents in one run (siblings sharing dependents), few plain failures
			return genDagCase(t, dagCfg{MaxN: 8, Density: []int{15, 30, 50}, ErrPct: 6, SkipPct: 35, RetryPct: 10, Modes: allModes, CancelPct: 10, Buffered: 5, Templates: true})
		case 1: // wide graphs under a small limit: failures while other tasks are queued for a slot
			return genDagCase(t, dagCfg{MaxN: 8, Density: []int{0, 10, 25}, ErrPct: 20, SkipPct: 10, RetryPct: 15, Modes: []string{"max", "max", "serial"}, CancelPct: 25, Buffered: 5})
		}
		return genDagCase(t, dagCfg{MaxN: 8, Density: []int{20, 40, 60}, ErrPct: 25, SkipPct: 15, RetryPct: 20, Modes: allModes, CancelPct: 35, ReAdd: 0, Buffered: 5, Templates: true})
	},
	NT: func(c *DagCase, r *Result) bool {
		return hasEdge(r.Model) && (r.FailedSeen || r.SkipSeen || r.Cancelled)
	},
}

var propC15 = &dprop{ID: "C15", Sub: "bound", Tag: "C15",
	Rule: "same controlled scheduler with wide graphs (edge density 0-30%) x SetMaxParallel(m) for m in 1..n+1 / serial mode x buffered output in half of the cases (each attempt writes a fragment to dag.Stdout before blocking and one to dag.Stderr after its release, so fragments of concurrently running tasks interleave unless buffered per attempt); at every entry the number of executing task functions must not exceed the limit; the sink must hold whole per-attempt blocks; non-trivial = the limit was binding (more ready tasks than slots) or >=2 tasks wrote concurrently; distinct by (script, mode, limit, history)",
	Gen: func(t *rapid.T) *DagCase {
		if chance(t, "skipheavy", 30) {
			// slots must be accounted for correctly when dependents are skipped through ErrorSkipParents while a small
			// limit is binding (the regression run of round 7 showed that 2 % skips made this a matter of the seed)
			return genDagCase(t, dagCfg{MaxN: 8, Density: []int{10, 25, 40}, ErrPct: 3, SkipPct: 30, RetryPct: 10, Modes: []string{"max", "max", "max", "serial"}, CancelPct: 5, Buffered: 20, Templates: true})
		}
		return genDagCase(t, dagCfg{MaxN: 8, Density: []int{0, 10, 30}, ErrPct: 5, SkipPct: 2, RetryPct: 15, Modes: []string{"max", "max", "max", "serial", "parallel"}, CancelPct: 15, Buffered: 50})
	},
	NT: func(c *DagCase, r *Result) bool { return r.BoundBinding || (c.Buffered && r.Overlap) },
}

var propC16 = &dprop{ID: "C16", Sub: "histories", Tag: "C16",
	Rule: "same controlled scheduler over graph-CONSTRUCTION histories: shuffled AddTask/TaskDependsOn/TaskRetries scripts with up to 3 re-adds of already known tasks at any position (same or second Task object), duplicate edges (12%), planted self edges / back edges (12%), DepthFirstSort calls in the middle of the script (each judged against the graph described so far), SetOutputBuffer on in 10-20% of the cases (with retries and failing attempts); termination within a bounded wait once everything was released, work conservation (the driver waits until exactly min(capacity, running+ready) task functions are in flight, a ready task never started shows as a stall), cycle rejection before any task starts (ErrorGraphHasCycle when the definition is otherwise error-free), DepthFirstSort validity; non-trivial = script repeats a call / plants a cycle, or a quiescent point with spare capacity was reached; distinct by (script, mode, history)",
	Gen: func(t *rapid.T) *DagCase {
		switch rapid.IntRange(0, 4).Draw(t, "variant") {
		case 0: // termination / work conservation when several tasks return ErrorSkipParents (bookkeeping of "all done")
			return genDagCase(t, dagCfg{MaxN: 8, Density: []int{10, 25, 40}, ErrPct: 2, SkipPct: 35, RetryPct: 5, Modes: allModes, CancelPct: 0, ReAdd: 1, TwoObjPct: 30, Buffered: 10, SortPct: 15, Templates: true})
		case 1: // termination after failures / cancellation with tasks queued behind a small limit (slots, result channel)
			return genDagCase(t, dagCfg{MaxN: 8, Density: []int{0, 10, 25}, ErrPct: 20, SkipPct: 8, RetryPct: 20, Modes: []string{"max", "max", "max", "serial"}, CancelPct: 25, ReAdd: 1, TwoObjPct: 30, Buffered: 20, SortPct: 15})
		}
		return genDagCase(t, dagCfg{MaxN: 7, Density: []int{20, 40, 70}, ErrPct: 4, SkipPct: 3, RetryPct: 15, Modes: allModes, CancelPct: 8, ReAdd: 3, DupPct: 8, CyclePct: 10, TwoObjPct: 30, Buffered: 15, SortPct: 30})
	},
	NT: func(c *DagCase, r *Result) bool {
		seen := map[string]bool{}
		rep := false
		for _, cl := range c.Script {
			k := fmt.Sprint(cl.Op, cl.T, cl.Deps)
			if cl.Op == "add" {
				k = fmt.Sprint("v", cl.T)
			}
			if seen[k] {
				rep = true
			}
			seen[k] = true
			if cl.Op == "dep" || cl.Op == "depl" {
				seen[fmt.Sprint("v", cl.T)] = true
				for _, d := range cl.Deps {
					seen[fmt.Sprint("v", d)] = true
				}
			}
		}
		return rep || r.Model.Cycle || r.Model.DefErr || (r.Quiescent >= 2 && !r.BoundBinding)
	},
}

func init() {
	propC13.register()
	propC14.register()
	propC15.register()
	propC16.register()
}

// race-detector builds of the controlled checks: the harness synchronises only through its own mutex and
// channels, so any report is a data race inside the library (e.g. state shared between task goroutines).
func raceVariant(p *dprop) *dprop {
	q := *p
	q.Sub = p.Sub + "-race"
	q.Rule = "the same generator and invariants as " + p.Sub + ", run under the Go race detector (halt_on_error): a data race inside the scheduler or between task goroutines is reported with the case in flight"
	if p.ID != "C15" {
		// buffered output belongs to C15: a race in the buffer handling must not be attributed to this property
		gen := p.Gen
		q.Gen = func(t *rapid.T) *DagCase {
			c := gen(t)
			c.Buffered, c.SinkFails = false, false
			return c
		}
	}
	q.register()
	return &q
}

var propC13race, propC14race, propC15race, propC16race = raceVariant(propC13), raceVariant(propC14), raceVariant(propC15), raceVariant(propC16)

func TestC13_orderRace(t *testing.T)     { propC13race.run(t) }
func TestC14_faultsRace(t *testing.T)    { propC14race.run(t) }
func TestC15_boundRace(t *testing.T)     { propC15race.run(t) }
func TestC16_historiesRace(t *testing.T) { propC16race.run(t) }

func TestC13_order(t *testing.T)     { propC13.run(t) }
func TestC14_faults(t *testing.T)    { propC14.run(t) }
func TestC15_bound(t *testing.T)     { propC15.run(t) }
func TestC16_histories(t *testing.T) { propC16.run(t) }

// ---------------------------------------------------------------------------
// exhaustive small scope: every labelled DAG x outcome assignment x mode x completion order

func allDags(n int) [][][]int {
	var out [][][]int
	type pr struct{ a, b int }
	var pairs []pr
	for a := 0; a < n; a++ {
		for b := 0; b < n; b++ {
			if a != b {
				pairs = append(pairs, pr{a, b})
			}
		}
	}
	for mask := 0; mask < 1<<len(pairs); mask++ {
		deps := make([][]int, n)
		for k, p := range pairs {
			if mask&(1<<k) != 0 {
				deps[p.a] = append(deps[p.a], p.b)
			}
		}
		c := &DagCase{N: n}
		for i := 0; i < n; i++ {
			c.Script = append(c.Script, Call{Op: "add", T: i})
		}
		for i := 0; i < n; i++ {
			if len(deps[i]) > 0 {
				c.Script = append(c.Script, Call{Op: "dep", T: i, Deps: deps[i]})
			}
		}
		if !BuildModel(c).Cycle {
			out = append(out, deps)
		}
	}
	return out
}

// exploreOrders runs the case under every completion order (stateless DFS over the choice tree).
func exploreOrders(base *DagCase, visit func(c *DagCase, r *Result) error) (int, error) {
	runs := 0
	prefix := []int{}
	for {
		c := *base
		c.Choices = append(append([]int{}, prefix...), make([]int, 4*base.N+4)...)
		r := Execute(&c)
		runs++
		if err := visit(&c, r); err != nil {
			return runs, err
		}
		// branching widths along this execution: number of in-flight tasks at each release
		var widths []int
		infl := 0
		for _, e := range r.Hist {
			switch e.Kind {
			case "enter":
				infl++
			case "release":
				widths = append(widths, infl)
			case "finish":
				infl--
			}
		}
		for len(prefix) < len(widths) {
			prefix = append(prefix, 0)
		}
		prefix = prefix[:len(widths)]
		k := len(prefix) - 1
		for k >= 0 && prefix[k]+1 >= widths[k] {
			k--
		}
		if k < 0 {
			return runs, nil
		}
		prefix = append(prefix[:k], prefix[k]+1)
		if runs > 200000 {
			return runs, nil
		}
	}
}

var errAbandon = fmt.Errorf("abandoned")

func exhaustive(t *testing.T, p *dprop, n int, outcomes []string, shard, shards int, cancels ...int) {
	if len(cancels) == 0 {
		cancels = []int{-1}
	}
	st := evid.New(p.ID, fmt.Sprintf("exhaustive-n%d", n), fmt.Sprintf("exhaustive small scope: every labelled acyclic graph with %d tasks x every assignment of outcomes %v (err-ok = fail then succeed under one retry, err-err = retry exhausted) x cancel points %v (-1 = never; k = cancel() after the k-th release) x modes {parallel, SetMaxParallel(1), SetMaxParallel(2), serial} x EVERY completion order (stateless depth-first search over the driver's choice tree, re-executing from scratch); non-trivial as in the random check", n, outcomes, cancels))
	st.Exhaustive = shards == 1
	defer st.Write()
	dags := allDags(n)
	modes := []struct {
		m   string
		max int
	}{{"parallel", 0}, {"max", 1}, {"max", 2}, {"serial", 0}}
	total := 1
	for i := 0; i < n; i++ {
		total *= len(outcomes)
	}
	for di, deps := range dags {
		if di%shards != shard {
			continue
		}
		for oa := 0; oa < total; oa++ {
			for _, md := range modes {
				c := &DagCase{N: n, Mode: md.m, Max: md.max, CancelAfter: -1}
				for i := 0; i < n; i++ {
					c.Script = append(c.Script, Call{Op: "add", T: i})
				}
				for i := 0; i < n; i++ {
					if len(deps[i]) > 0 {
						c.Script = append(c.Script, Call{Op: "dep", T: i, Deps: deps[i]})
					}
				}
				c.Outcomes = make([][]string, n)
				x := oa
				for i := 0; i < n; i++ {
					oc := outcomes[x%len(outcomes)]
					x /= len(outcomes)
					switch oc {
					case "err-ok": // fail-then-succeed under one retry
						c.Script = append(c.Script, Call{Op: "retries", T: i, R: 1})
						c.Outcomes[i] = []string{"err", "ok"}
					case "err-err": // retry exhausted
						c.Script = append(c.Script, Call{Op: "retries", T: i, R: 1})
						c.Outcomes[i] = []string{"err", "err"}
					default:
						c.Outcomes[i] = []string{oc}
					}
				}
				for _, cancelAfter := range cancels {
					c.CancelAfter = cancelAfter
					_, err := exploreOrders(c, func(cc *DagCase, r *Result) error {
						st.Eval()
						if p.NT(cc, r) {
							var fp strings.Builder
							fmt.Fprint(&fp, di, oa, md)
							for _, e := range r.Hist {
								if e.Kind == "enter" || e.Kind == "finish" {
									fmt.Fprintf(&fp, "%s%d%s,", e.Kind[:1], e.Task, e.Result)
								}
							}
							if st.NT(fp.String()) {
								st.Sample(summarize(cc, r))
							}
						}
						if v := r.Has(p.Tag); v != nil {
							path := saveFail(p.ID, p.Sub, cc, v.Msg)
							return fmt.Errorf("%s (case file %s)", v.Msg, path)
						}
						if r.Stalled {
							// a confirmed stall is C16's verdict; every further order of this tree would cost the
							// stall bounds again, so the enumeration ends here (never reached on a tree where C16 holds)
							return errAbandon
						}
						return nil
					})
					if err == errAbandon {
						t.Logf("NOTE: %s exhaustive n=%d abandoned after a confirmed stall without a %s violation (reported by C16's checks)", p.ID, n, p.ID)
						return
					}
					if err != nil {
						t.Fatalf("%s exhaustive n=%d violated: %v", p.ID, n, err)
					}
				}
			}
		}
	}
}

func shardEnv() (int, int) {
	var sh, n int
	fmt.Sscan(os.Getenv("VERIF_SHARD"), &sh)
	fmt.Sscan(os.Getenv("VERIF_SHARDS"), &n)
	if n <= 0 {
		n = 1
	}
	return sh % n, n
}

func TestC13_exhaustive3(t *testing.T) {
	exhaustive(t, propC13, 3, []string{"ok", "err", "skip", "err-ok", "err-err"}, 0, 1)
}
func TestC14_exhaustive3(t *testing.T) {
	exhaustive(t, propC14, 3, []string{"ok", "err", "skip", "err-ok"}, 0, 1, -1, 0, 1, 2)
}
func TestC13_exhaustive4(t *testing.T) {
	sh, n := shardEnv()
	exhaustive(t, propC13, 4, []string{"ok", "err", "err-ok"}, sh, n)
}
func TestC14_exhaustive4(t *testing.T) {
	sh, n := shardEnv()
	exhaustive(t, propC14, 4, []string{"ok", "err", "skip"}, sh, n)
}
func TestC13_exhaustive5(t *testing.T) {
	sh, n := shardEnv()
	exhaustive(t, propC13, 5, []string{"ok"}, sh, n)
}
func TestC15_exhaustive4(t *testing.T) {
	sh, n := shardEnv()
	exhaustive(t, propC15, 4, []string{"ok"}, sh, n)
}
func TestC16_exhaustive4(t *testing.T) {
	sh, n := shardEnv()
	exhaustive(t, propC16, 4, []string{"ok", "err"}, sh, n)
}
func TestC15_exhaustive3(t *testing.T) { exhaustive(t, propC15, 3, []string{"ok"}, 0, 1) }
func TestC16_exhaustive3(t *testing.T) { exhaustive(t, propC16, 3, []string{"ok", "err"}, 0, 1) }

// ---------------------------------------------------------------------------
// replay

func TestReplay(t *testing.T) {
	list := os.Getenv("VERIF_REPLAY")
	if list == "" {
		t.Skip("VERIF_REPLAY not set")
	}
	for _, path := range strings.Split(list, "\n") {
		if path == "" {
			continue
		}
		b, err := os.ReadFile(path)
		var f evid.Failure
		if err == nil {
			err = json.Unmarshal(b, &f)
		}
		if err != nil {
			fmt.Printf("REPLAY-INFRA property=? file=%s\n%v\n", path, err)
			continue
		}
		if rf, ok := freeReplay[f.Property+"/"+f.Sub]; ok {
			if err := rf(f.Case); err != nil {
				fmt.Printf("REPLAY-FAIL property=%s file=%s\n%v\n", f.Property, path, err)
			} else {
				fmt.Printf("REPLAY-PASS property=%s file=%s\n", f.Property, path)
			}
			continue
		}
		p, ok := registry[f.Property+"/"+f.Sub]
		if !ok {
			fmt.Printf("REPLAY-INFRA property=%s file=%s\nno such sub-check %s\n", f.Property, path, f.Sub)
			continue
		}
		var c DagCase
		if err := json.Unmarshal(f.Case, &c); err != nil {
			fmt.Printf("REPLAY-INFRA property=%s file=%s\n%v\n", f.Property, path, err)
			continue
		}
		st := evid.New(p.ID, p.Sub, p.Rule)
		// schedule-dependent parts may need a few executions
		var cerr error
		for k := 0; k < 5 && cerr == nil; k++ {
			cerr = p.check(&c, st)
		}
		if cerr != nil {
			fmt.Printf("REPLAY-FAIL property=%s file=%s\n%v\n", f.Property, path, cerr)
		} else {
			fmt.Printf("REPLAY-PASS property=%s file=%s\n", f.Property, path)
		}
	}
}

var freeReplay = map[string]func(raw json.RawMessage) error{}

func writeCurrent(id, sub string, c interface{}) {
	raw, err := json.Marshal(c)
	if err != nil {
		return
	}
	f := evid.Failure{Property: id, Sub: sub, Message: "case in flight when the process stopped (race detector report / crash)", Case: raw}
	b, _ := json.Marshal(f)
	shard := os.Getenv("VERIF_SHARD")
	if shard == "" {
		shard = "0"
	}
	_ = os.WriteFile(filepath.Join(evid.OutDir(), fmt.Sprintf("current-%s-%s-%s.json", id, sub, shard)), b, 0o644)
}

var _ = sort.Ints
