package dagh

import (
	"context"
	"encoding/json"
	"errors"
	"fmt"
	"runtime"
	"sort"
	"strings"
	"sync"
	"sync/atomic"
	"testing"
	"time"

	getoptions "github.com/DavidGamba/go-getoptions"
	"github.com/DavidGamba/go-getoptions/dag"
	"pgregory.net/rapid"

	"verif/harness/evid"
)

// Free-running variants: no gates and no harness synchronisation at all, so the
// harness adds no happens-before edges of its own. Run under -race (thorough
// and quick): a correct order without a happens-before edge is reported by the
// race detector; a wrong order is detected from the values alone.

type FreeCase struct {
	N           int      `json:"n"`
	Deps        [][]int  `json:"deps"`
	Deps2       [][]int  `json:"deps2,omitempty"` // second graph over the same tasks (shared-task check)
	Mode        string   `json:"mode"`
	SerialExtra int      `json:"serial_extra,omitempty"`
	Max         int      `json:"max,omitempty"`
	Spin        []int    `json:"spin"`
	Out         []string `json:"out,omitempty"` // per task: ok | err | skip (free-running termination check)
	// Placeholder: per task, the first graph first learns the id through a different Task object and is
	// then given the shared one by a second AddTask (shared-task check)
	Placeholder []bool `json:"placeholder,omitempty"`
	// second stage of the same graph (re-run check): Stage2 more tasks are added after the first Run,
	// the limit is changed to Max2 (0 = left alone), then the graph is Run again
	Stage2 int `json:"stage2,omitempty"`
	Max2   int `json:"max2,omitempty"`
}

func spin(n int) {
	x := 0
	for i := 0; i < n; i++ {
		x += i
		if i%64 == 63 {
			runtime.Gosched()
		}
	}
	_ = x
}

func genFree(t *rapid.T, modes []string, maxN int, second bool) *FreeCase {
	n := rapid.IntRange(2, maxN).Draw(t, "n")
	mk := func(label string) [][]int {
		perm := rapid.Permutation(seq(n)).Draw(t, label+"perm")
		dens := rapid.SampledFrom([]int{0, 20, 50, 80}).Draw(t, label+"density")
		deps := make([][]int, n)
		for a := 0; a < n; a++ {
			for b := a + 1; b < n; b++ {
				if rapid.IntRange(0, 99).Draw(t, label+"edge") < dens {
					deps[perm[b]] = append(deps[perm[b]], perm[a])
				}
			}
		}
		return deps
	}
	c := &FreeCase{N: n, Deps: mk("g1")}
	if second {
		c.Deps2 = mk("g2")
	}
	c.Mode = rapid.SampledFrom(modes).Draw(t, "mode")
	if c.Mode == "max" {
		c.Max = rapid.IntRange(1, n).Draw(t, "max")
	}
	if c.Mode == "serial" && chance(t, "serialextra", 35) {
		c.SerialExtra = rapid.IntRange(2, n+2).Draw(t, "serialextralimit")
		if chance(t, "limitfirst", 50) {
			c.SerialExtra = -c.SerialExtra
		}
	}
	c.Spin = rapid.SliceOfN(rapid.SampledFrom([]int{0, 1, 10, 100, 1000, 5000}), n, n).Draw(t, "spin")
	return c
}

func buildFree(name string, c *FreeCase, deps [][]int, tasks []*dag.Task) *dag.Graph {
	g := dag.NewGraph(name)
	g.TickerDuration = time.Microsecond
	ApplyMode(g, c.Mode, c.Max, c.SerialExtra)
	for i := 0; i < c.N; i++ {
		g.AddTask(tasks[i])
	}
	for i := 0; i < c.N; i++ {
		for _, d := range deps[i] {
			g.TaskDependsOn(tasks[i], tasks[d])
		}
	}
	return g
}

func runBounded(g *dag.Graph) (error, bool) {
	done := make(chan error, 1)
	go func() { done <- g.Run(context.Background(), nil, nil) }()
	select {
	case err := <-done:
		return err, true
	case <-time.After(30 * time.Second):
		return nil, false
	}
}

// --- C13: values written by dependencies are visible to dependents ---------

func checkFreeOrder(c *FreeCase) error {
	val := make([]int, c.N) // plain, unsynchronised
	tasks := make([]*dag.Task, c.N)
	for i := 0; i < c.N; i++ {
		i := i
		tasks[i] = dag.NewTask(taskID(i), func(ctx context.Context, opt *getoptions.GetOpt, args []string) error {
			spin(c.Spin[i])
			m := 0
			for _, d := range c.Deps[i] {
				if val[d] > m {
					m = val[d]
				}
				if val[d] == 0 {
					m = -1000000 // dependency has not written yet
				}
			}
			val[i] = 1 + m
			return nil
		})
	}
	g := buildFree("free", c, c.Deps, tasks)
	err, ok := runBounded(g)
	if !ok {
		return fmt.Errorf("inconclusive: Run did not return within 30s")
	}
	if err != nil {
		return fmt.Errorf("Run returned %v for an all-successful acyclic graph", err)
	}
	depth := make([]int, c.N)
	var d func(i int) int
	d = func(i int) int {
		if depth[i] != 0 {
			return depth[i]
		}
		m := 0
		for _, x := range c.Deps[i] {
			if v := d(x); v > m {
				m = v
			}
		}
		depth[i] = m + 1
		return depth[i]
	}
	for i := 0; i < c.N; i++ {
		if val[i] != d(i) {
			return fmt.Errorf("%s computed %d from its dependencies' values, want %d: it ran before a dependency had finished (values %v, deps %v)", taskID(i), val[i], d(i), val, c.Deps)
		}
	}
	return nil
}

// --- C15: serial / limit 1 means mutual exclusion with happens-before ------

func checkFreeCounter(c *FreeCase) error {
	counter := 0 // plain
	tasks := make([]*dag.Task, c.N)
	for i := 0; i < c.N; i++ {
		i := i
		tasks[i] = dag.NewTask(taskID(i), func(ctx context.Context, opt *getoptions.GetOpt, args []string) error {
			x := counter
			spin(c.Spin[i])
			counter = x + 1
			return nil
		})
	}
	g := buildFree("free", c, c.Deps, tasks)
	err, ok := runBounded(g)
	if !ok {
		return fmt.Errorf("inconclusive: Run did not return within 30s")
	}
	if err != nil {
		return fmt.Errorf("Run returned %v", err)
	}
	if counter != c.N {
		return fmt.Errorf("%d tasks incremented an unsynchronised counter in %s mode (limit %d) but it reads %d: two task functions overlapped", c.N, c.Mode, c.Max, counter)
	}
	return nil
}

// --- C15: a Task shared by two concurrently running graphs never overlaps with itself

func checkFreeShared(c *FreeCase) error {
	busy := make([]bool, c.N) // plain
	var mu sync.Mutex
	var viol []string
	tasks := make([]*dag.Task, c.N)
	for i := 0; i < c.N; i++ {
		i := i
		tasks[i] = dag.NewTask(taskID(i), func(ctx context.Context, opt *getoptions.GetOpt, args []string) error {
			if busy[i] {
				mu.Lock()
				viol = append(viol, taskID(i))
				mu.Unlock()
			}
			busy[i] = true
			spin(c.Spin[i])
			busy[i] = false
			return nil
		})
	}
	g1 := buildFree("g1", c, c.Deps, tasks)
	for i, ph := range c.Placeholder {
		if ph && i < c.N {
			// g1 knew the id through another Task object before the shared one was added
			g1 = nil
		}
	}
	if g1 == nil {
		g1 = dag.NewGraph("g1")
		g1.TickerDuration = time.Microsecond
		switch c.Mode {
		case "serial":
			g1.SetSerial()
		case "max":
			g1.SetMaxParallel(c.Max)
		}
		for i := 0; i < c.N; i++ {
			if i < len(c.Placeholder) && c.Placeholder[i] {
				i := i
				g1.AddTask(dag.NewTask(taskID(i), func(ctx context.Context, opt *getoptions.GetOpt, args []string) error {
					mu.Lock()
					viol = append(viol, "placeholder definition of "+taskID(i)+" was run")
					mu.Unlock()
					return nil
				}))
			}
		}
		for i := 0; i < c.N; i++ {
			g1.AddTask(tasks[i])
		}
		for i := 0; i < c.N; i++ {
			for _, d := range c.Deps[i] {
				g1.TaskDependsOn(tasks[i], tasks[d])
			}
		}
	}
	g2 := buildFree("g2", c, c.Deps2, tasks)
	var wg sync.WaitGroup
	errs := make([]error, 2)
	oks := make([]bool, 2)
	for k, g := range []*dag.Graph{g1, g2} {
		wg.Add(1)
		go func(k int, g *dag.Graph) {
			defer wg.Done()
			errs[k], oks[k] = runBounded(g)
		}(k, g)
	}
	wg.Wait()
	if !oks[0] || !oks[1] {
		return fmt.Errorf("inconclusive: Run did not return within 30s")
	}
	if errs[0] != nil || errs[1] != nil {
		return fmt.Errorf("Run returned %v / %v", errs[0], errs[1])
	}
	if len(viol) > 0 {
		return fmt.Errorf("shared task(s) %v were executing twice at the same time in two concurrently running graphs", viol)
	}
	return nil
}

// --- C15: the limit in force at a Run is the one last given to SetMaxParallel (a graph may be run in stages)

func checkFreeRerun(c *FreeCase) error {
	var cur, peak1, peak2 int32
	stage := int32(1)
	body := func(i int) getoptions.CommandFn {
		return func(ctx context.Context, opt *getoptions.GetOpt, args []string) error {
			n := atomic.AddInt32(&cur, 1)
			pk := &peak1
			if atomic.LoadInt32(&stage) == 2 {
				pk = &peak2
			}
			for {
				old := atomic.LoadInt32(pk)
				if n <= old || atomic.CompareAndSwapInt32(pk, old, n) {
					break
				}
			}
			spin(2000 + c.Spin[i%len(c.Spin)])
			atomic.AddInt32(&cur, -1)
			return nil
		}
	}
	tasks := make([]*dag.Task, c.N)
	for i := 0; i < c.N; i++ {
		tasks[i] = dag.NewTask(taskID(i), body(i))
	}
	g := buildFree("stages", c, c.Deps, tasks)
	err, ok := runBounded(g)
	if !ok {
		return fmt.Errorf("inconclusive: first Run did not return within 30s")
	}
	if err != nil {
		return fmt.Errorf("first Run returned %v", err)
	}
	limit1 := int32(1 << 30)
	switch c.Mode {
	case "serial":
		limit1 = 1
	case "max":
		limit1 = int32(c.Max)
	}
	if peak1 > limit1 {
		return fmt.Errorf("first Run: %d task functions executing at the same time, limit %d", peak1, limit1)
	}
	atomic.StoreInt32(&stage, 2)
	for k := 0; k < c.Stage2; k++ {
		g.AddTask(dag.NewTask(fmt.Sprintf("stage2-%02d", k), body(k)))
	}
	limit2 := limit1
	if c.Max2 > 0 && c.Mode != "serial" {
		g.SetMaxParallel(c.Max2)
		limit2 = int32(c.Max2)
	}
	err, ok = runBounded(g)
	if !ok {
		return fmt.Errorf("inconclusive: second Run did not return within 30s")
	}
	if err != nil {
		return fmt.Errorf("second Run returned %v", err)
	}
	if peak2 > limit2 {
		return fmt.Errorf("second Run of the same graph (%d tasks added after the first Run, then SetMaxParallel(%d)): %d task functions executing at the same time, limit in force %d (first Run: mode %s limit %d)", c.Stage2, c.Max2, peak2, limit2, c.Mode, c.Max)
	}
	return nil
}

var freeRerun = &freeProp{ID: "C15", Sub: "stages",
	Rule: "free-running: a random DAG is Run under a generated mode/limit, then 2-6 further independent tasks are added to the SAME graph, SetMaxParallel is called with a new (usually lower) limit and the graph is Run again; the peak number of task functions executing at the same time (atomic counter, tasks spin) must not exceed the limit in force at each Run; distinct by case",
	Gen: func(t *rapid.T) *FreeCase {
		c := genFree(t, []string{"parallel", "max", "max", "serial"}, 6, false)
		if c.Mode == "max" {
			c.Max = rapid.IntRange(2, 6).Draw(t, "max1")
		}
		c.Stage2 = rapid.IntRange(2, 6).Draw(t, "stage2")
		c.Max2 = rapid.IntRange(0, 3).Draw(t, "max2")
		return c
	},
	Check: checkFreeRerun,
}

func TestC15_stages(t *testing.T) { freeRerun.run(t) }

// --- C13: a shared Task that fails keeps its dependents from starting in EVERY graph that contains it ---

func checkFreeSharedOrder(c *FreeCase) error {
	var mu sync.Mutex
	var viol []string
	depsOf := map[string][][]int{"g1": c.Deps, "g2": c.Deps2}
	tasks := make([]*dag.Task, c.N)
	for i := 0; i < c.N; i++ {
		i := i
		tasks[i] = dag.NewTask(taskID(i), func(ctx context.Context, opt *getoptions.GetOpt, args []string) error {
			// Run hands its args to every task: they name the graph this execution belongs to
			if len(args) == 1 {
				for _, d := range depsOf[args[0]][i] {
					if c.Out[d] != "ok" {
						mu.Lock()
						viol = append(viol, fmt.Sprintf("%s entered in graph %s although its dependency %s never returns nil (it returns %s)", taskID(i), args[0], taskID(d), c.Out[d]))
						mu.Unlock()
					}
				}
			}
			spin(c.Spin[i])
			switch c.Out[i] {
			case "err":
				return fmt.Errorf("failure of %s", taskID(i))
			case "skip":
				return dag.ErrorSkipParents
			}
			return nil
		})
	}
	g1 := buildFree("g1", c, c.Deps, tasks)
	g2 := buildFree("g2", c, c.Deps2, tasks)
	var wg sync.WaitGroup
	oks := make([]bool, 2)
	for k, g := range []*dag.Graph{g1, g2} {
		wg.Add(1)
		go func(k int, g *dag.Graph) {
			defer wg.Done()
			done := make(chan error, 1)
			go func() { done <- g.Run(context.Background(), nil, []string{g.Name}) }()
			select {
			case <-done:
				oks[k] = true
			case <-time.After(30 * time.Second):
			}
		}(k, g)
	}
	wg.Wait()
	if !oks[0] || !oks[1] {
		return fmt.Errorf("inconclusive: Run did not return within 30s")
	}
	if len(viol) > 0 {
		return fmt.Errorf("%s (two graphs over the same Task objects, run concurrently)", viol[0])
	}
	return nil
}

var freeSharedOrder = &freeProp{ID: "C13", Sub: "shared-order",
	Rule: "free-running: two graphs with independent random edges over the SAME Task objects, run concurrently; about a third of the tasks always fail or return ErrorSkipParents; Run's args name the graph, so every task function checks on entry that none of its direct dependencies in THAT graph is a task that never returns nil; under the race detector; distinct by case",
	Gen: func(t *rapid.T) *FreeCase {
		c := genFree(t, []string{"parallel", "parallel", "max", "serial"}, 6, true)
		c.Out = make([]string, c.N)
		for i := range c.Out {
			c.Out[i] = rapid.SampledFrom([]string{"ok", "ok", "ok", "ok", "err", "skip"}).Draw(t, "out")
		}
		for i := range c.Spin {
			if c.Spin[i] < 100 {
				c.Spin[i] = 1000
			}
		}
		return c
	},
	Check: checkFreeSharedOrder,
}

func TestC13_sharedorder(t *testing.T) { freeSharedOrder.run(t) }

// --- C16: a cycle closed between two Runs of the same graph is rejected by the second Run ---

func checkFreeStagesCycle(c *FreeCase) error {
	var stage int32 = 1
	var started2 int32
	mk := func(id string) *dag.Task {
		return dag.NewTask(id, func(ctx context.Context, opt *getoptions.GetOpt, args []string) error {
			if atomic.LoadInt32(&stage) == 2 {
				atomic.AddInt32(&started2, 1)
			}
			return nil
		})
	}
	tasks := make([]*dag.Task, c.N)
	for i := 0; i < c.N; i++ {
		tasks[i] = mk(taskID(i))
	}
	g := buildFree("stages", c, c.Deps, tasks)
	err, ok := runBounded(g)
	if !ok {
		return fmt.Errorf("inconclusive: first Run did not return within 30s")
	}
	if err != nil {
		return fmt.Errorf("first Run returned %v for an all-successful acyclic graph", err)
	}
	atomic.StoreInt32(&stage, 2)
	// Stage2 new tasks form a chain; the chain depends on old task `a` and old task `b` depends on the chain.
	// That closes a cycle exactly when a (transitively) depends on b, or a == b.
	a, b := c.Max2%c.N, (c.Max2/c.N)%c.N
	var chain []*dag.Task
	for k := 0; k < c.Stage2; k++ {
		chain = append(chain, mk(fmt.Sprintf("stage2-%02d", k)))
		g.AddTask(chain[k])
		if k > 0 {
			g.TaskDependsOn(chain[k], chain[k-1])
		}
	}
	g.TaskDependsOn(chain[0], tasks[a])
	g.TaskDependsOn(tasks[b], chain[len(chain)-1])
	reach := func(from, to int) bool {
		seen := map[int]bool{}
		var rec func(x int) bool
		rec = func(x int) bool {
			if x == to {
				return true
			}
			if seen[x] {
				return false
			}
			seen[x] = true
			for _, d := range c.Deps[x] {
				if rec(d) {
					return true
				}
			}
			return false
		}
		return rec(from)
	}
	cyc := reach(a, b)
	err, ok = runBounded(g)
	if !ok {
		return fmt.Errorf("second Run (cycle closed between the runs: %v) did not return within 30s: Run must always finish", cyc)
	}
	if cyc {
		if !errors.Is(err, dag.ErrorGraphHasCycle) {
			return fmt.Errorf("between two Runs %d tasks were added that close a dependency cycle through tasks completed by the first Run (%s -> new chain -> %s); the second Run returned %v, want ErrorGraphHasCycle", c.Stage2, taskID(b), taskID(a), err)
		}
		if n := atomic.LoadInt32(&started2); n != 0 {
			return fmt.Errorf("the second Run started %d task(s) although the graph has a dependency cycle", n)
		}
		return nil
	}
	if err != nil {
		return fmt.Errorf("second Run of an acyclic graph returned %v", err)
	}
	if n := atomic.LoadInt32(&started2); int(n) != c.Stage2 {
		return fmt.Errorf("second Run started %d task functions, want the %d tasks added after the first Run (each once, completed tasks not again)", n, c.Stage2)
	}
	return nil
}

var freeStagesCycle = &freeProp{ID: "C16", Sub: "stages-cycle",
	Rule: "free-running: a random acyclic graph is Run (all tasks succeed), then a chain of 1-3 new tasks is added that depends on an old task a while an old task b is made to depend on the chain, and the graph is Run again: when a reaches b this closes a cycle through completed vertices and the second Run must return ErrorGraphHasCycle without starting anything, otherwise it must run exactly the new tasks; distinct by case",
	Gen: func(t *rapid.T) *FreeCase {
		c := genFree(t, []string{"parallel", "max", "serial"}, 6, false)
		c.Stage2 = rapid.IntRange(1, 3).Draw(t, "stage2")
		c.Max2 = rapid.IntRange(0, c.N*c.N-1).Draw(t, "ab")
		return c
	},
	Check: checkFreeStagesCycle,
}

func TestC16_stagescycle(t *testing.T) { freeStagesCycle.run(t) }

type freeProp struct {
	ID, Sub, Rule string
	Gen           func(t *rapid.T) *FreeCase
	Check         func(c *FreeCase) error
}

func (p *freeProp) register() {
	freeReplay[p.ID+"/"+p.Sub] = func(raw json.RawMessage) error {
		var c FreeCase
		if err := json.Unmarshal(raw, &c); err != nil {
			return err
		}
		for k := 0; k < 20; k++ {
			if err := p.Check(&c); err != nil {
				return err
			}
		}
		return nil
	}
}

func (p *freeProp) run(t *testing.T) {
	st := evid.New(p.ID, p.Sub, p.Rule)
	defer st.Write()
	rapid.Check(t, func(rt *rapid.T) {
		c := p.Gen(rt)
		writeCurrent(p.ID, p.Sub, c)
		st.Eval()
		st.Class("mode:" + c.Mode)
		edges := 0
		for _, d := range c.Deps {
			edges += len(d)
		}
		if edges > 0 || p.Sub != "free-order" {
			b, _ := json.Marshal(c)
			if st.NT(string(b)) {
				st.Sample(c)
			}
		}
		if err := p.Check(c); err != nil {
			if strings.HasPrefix(err.Error(), "inconclusive") {
				st.Exclude(err.Error()) // termination is C16's business; a time-out here is no verdict on ordering
				return
			}
			path := evid.SaveFail(p.ID, p.Sub, c, err.Error())
			rt.Fatalf("%s/%s violated: %v\ncase file: %s", p.ID, p.Sub, err, path)
		}
	})
}

var freeOrder = &freeProp{ID: "C13", Sub: "free-order",
	Rule: "free-running (no gates, no harness synchronisation): random DAG of 2-8 tasks x mode; each task spins for a generated time, then writes its own plain slot val[i] = 1 + max(val[deps]) reading its dependencies' plain slots; final values must equal the longest-path depth; run under the race detector so a correct order without a happens-before edge is reported too; non-trivial = graph has an edge; distinct by case",
	Gen: func(t *rapid.T) *FreeCase {
		return genFree(t, []string{"parallel", "parallel", "max", "serial"}, 8, false)
	},
	Check: checkFreeOrder,
}

var freeCounter = &freeProp{ID: "C15", Sub: "free-counter",
	Rule: "free-running: random DAG x {serial mode, SetMaxParallel(1)}; every task does a read-spin-write increment of one plain shared counter; the final count must equal the number of tasks (lost update = overlap) and the race detector must stay silent (consecutive tasks ordered by happens-before); distinct by case",
	Gen: func(t *rapid.T) *FreeCase {
		c := genFree(t, []string{"serial", "max"}, 8, false)
		if c.Mode == "max" {
			c.Max = 1
		}
		return c
	},
	Check: checkFreeCounter,
}

var freeShared = &freeProp{ID: "C15", Sub: "shared",
	Rule: "free-running: two graphs with independent random edges built over the SAME Task objects and run concurrently from two goroutines (in a third of the cases the first graph first learns some ids through a different Task object and is given the shared one by a later AddTask: the later definition is the one in force); each task sets a plain in-task flag, spins, clears it; the flag must never be seen set on entry and the race detector must stay silent; distinct by case",
	Gen: func(t *rapid.T) *FreeCase {
		c := genFree(t, []string{"parallel", "parallel", "max", "serial", "serial"}, 6, true)
		if rapid.IntRange(0, 2).Draw(t, "placeholders") == 0 {
			c.Placeholder = rapid.SliceOfN(rapid.Bool(), c.N, c.N).Draw(t, "placeholder")
		}
		return c
	},
	Check: checkFreeShared,
}

// --- C16: graphs sharing Task objects all terminate (one after another, and concurrently) ---

func checkSharedTermination(c *FreeCase) error {
	tasks := make([]*dag.Task, c.N)
	var mu sync.Mutex
	runs := make([]int, c.N)
	for i := 0; i < c.N; i++ {
		i := i
		tasks[i] = dag.NewTask(taskID(i), func(ctx context.Context, opt *getoptions.GetOpt, args []string) error {
			spin(c.Spin[i] / 10)
			mu.Lock()
			runs[i]++
			mu.Unlock()
			return nil
		})
	}
	bound := StallBound
	wait := func(g *dag.Graph, what string) error {
		done := make(chan error, 1)
		go func() { done <- g.Run(context.Background(), nil, nil) }()
		select {
		case err := <-done:
			if err != nil {
				return fmt.Errorf("%s: Run returned %v for an all-successful acyclic graph", what, err)
			}
			return nil
		case <-time.After(stallWait()):
			atomic.StoreInt32(&stallSeen, 1)
			mu.Lock()
			defer mu.Unlock()
			return fmt.Errorf("STALL-CONFIRMED: %s did not return within %s (+ confirmation wait) (tasks run so far per task: %v); every started task function had returned", what, bound, runs)
		}
	}
	// one after another: a graph that has finished must leave its tasks usable
	if err := wait(buildFree("g1", c, c.Deps, tasks), "first graph"); err != nil {
		return err
	}
	if err := wait(buildFree("g2", c, c.Deps2, tasks), "second graph over the same Task objects, run after the first finished"); err != nil {
		return err
	}
	// and concurrently
	errs := make([]error, 2)
	var wg sync.WaitGroup
	for k, deps := range [][][]int{c.Deps, c.Deps2} {
		wg.Add(1)
		go func(k int, deps [][]int) {
			defer wg.Done()
			errs[k] = wait(buildFree(fmt.Sprintf("c%d", k), c, deps, tasks), "graph run concurrently with another graph over the same Task objects")
		}(k, deps)
	}
	wg.Wait()
	for _, e := range errs {
		if e != nil {
			return e
		}
	}
	mu.Lock()
	defer mu.Unlock()
	for i, n := range runs {
		if n != 4 {
			return fmt.Errorf("%s ran %d times over 4 graph runs that each contain it", taskID(i), n)
		}
	}
	return nil
}

// --- C16: Run returns under true concurrency, with failures and skips, under small limits ---
// The controlled harness serialises completions; here nothing is serialised, so windows inside the
// scheduler (several completions arriving within one step) are exercised by the runtime.

func checkFreeTermination(c *FreeCase) error {
	tasks := make([]*dag.Task, c.N)
	for i := 0; i < c.N; i++ {
		i := i
		tasks[i] = dag.NewTask(taskID(i), func(ctx context.Context, opt *getoptions.GetOpt, args []string) error {
			spin(c.Spin[i] / 20)
			switch c.Out[i] {
			case "err":
				return fmt.Errorf("failure of %s", taskID(i))
			case "skip":
				return dag.ErrorSkipParents
			}
			return nil
		})
	}
	g := buildFree("ft", c, c.Deps, tasks)
	done := make(chan error, 1)
	go func() { done <- g.Run(context.Background(), nil, nil) }()
	select {
	case <-done:
		return nil
	case <-time.After(stallWait()):
		atomic.StoreInt32(&stallSeen, 1)
		return fmt.Errorf("STALL-CONFIRMED: Run did not return within %s (+%s confirmation) although every task function returns promptly (mode %s, limit %d, outcomes %v, deps %v)", StallBound, StallConfirm, c.Mode, c.Max, c.Out, c.Deps)
	}
}

var freeTermination = &freeProp{ID: "C16", Sub: "free-termination",
	Rule: "free-running (no gates): wide random graphs x small SetMaxParallel limits / serial / parallel x outcomes {ok, error, ErrorSkipParents} with near-instant task functions, so that several completions reach the scheduler within one of its steps; Run must return within the bounded wait; distinct by case",
	Gen: func(t *rapid.T) *FreeCase {
		if rapid.Bool().Draw(t, "bigstar") {
			// a failing / skipping hub with many dependents (each gets a "skipped" result from the scheduler)
			// while many instant independent tasks complete: many completions per scheduler step
			n := rapid.IntRange(20, 60).Draw(t, "n")
			c := &FreeCase{N: n, Deps: make([][]int, n), Mode: "max", Max: rapid.IntRange(1, 2).Draw(t, "max")}
			nd := rapid.IntRange(n/4, 3*n/4).Draw(t, "ndependents")
			for i := 1; i <= nd; i++ {
				c.Deps[i] = []int{0}
				if i > 1 && chance(t, "chain", 20) {
					c.Deps[i] = append(c.Deps[i], i-1)
				}
			}
			c.Spin = make([]int, n)
			c.Out = make([]string, n)
			for i := range c.Out {
				c.Out[i] = "ok"
				c.Spin[i] = rapid.SampledFrom([]int{0, 0, 20, 200, 2000}).Draw(t, "spin")
			}
			c.Out[0] = rapid.SampledFrom([]string{"err", "err", "skip"}).Draw(t, "hub")
			c.Spin[0] = rapid.SampledFrom([]int{0, 200, 4000}).Draw(t, "hubspin")
			return c
		}
		c := genFree(t, []string{"max", "max", "max", "serial", "parallel"}, 8, false)
		if c.Mode == "max" {
			c.Max = rapid.IntRange(1, 3).Draw(t, "smallmax")
		}
		c.Out = make([]string, c.N)
		for i := range c.Out {
			switch {
			case chance(t, "err", 20):
				c.Out[i] = "err"
			case chance(t, "skip", 12):
				c.Out[i] = "skip"
			default:
				c.Out[i] = "ok"
			}
		}
		return c
	},
	Check: checkFreeTermination,
}

func TestC16_freetermination(t *testing.T) { freeTermination.run(t) }

var sharedTermination = &freeProp{ID: "C16", Sub: "shared-termination",
	Rule:  "free-running: two graphs with independent random edges over the SAME Task objects, in every mode; run one after the other and then concurrently; every Run must return within the bounded wait and every task must have run once per graph run; distinct by case",
	Gen:   func(t *rapid.T) *FreeCase { return genFree(t, []string{"parallel", "max", "serial"}, 6, true) },
	Check: checkSharedTermination,
}

func TestC16_shared(t *testing.T) { sharedTermination.run(t) }

func init() {
	freeTermination.register()
	sharedTermination.register()
	freeOrder.register()
	freeCounter.register()
	freeShared.register()
	freeRerun.register()
	freeSharedOrder.register()
	freeStagesCycle.register()
	sharedWriter.register()
	freeStagesOrder.register()
}

func TestC13_free(t *testing.T)        { freeOrder.run(t) }
func TestC15_freecounter(t *testing.T) { freeCounter.run(t) }
func TestC15_shared(t *testing.T)      { freeShared.run(t) }

// --- C15: with buffering on, every attempt's output is one contiguous block even when several graphs that run
// at the same moment report to the same (synchronised, like os.Stdout) writer, whatever their modes ---

type lockedSink struct {
	mu  sync.Mutex
	buf []byte
}

func (w *lockedSink) Write(p []byte) (int, error) {
	w.mu.Lock()
	w.buf = append(w.buf, p...)
	w.mu.Unlock()
	return len(p), nil
}

func checkSharedWriter(c *FreeCase) error {
	const frags = 4
	w := &lockedSink{}
	var failed sync.Map // "<g><task>" -> attempt counter
	mkTasks := func(gname string) []*dag.Task {
		ts := make([]*dag.Task, c.N)
		for i := 0; i < c.N; i++ {
			i := i
			ts[i] = dag.NewTask(taskID(i), func(ctx context.Context, opt *getoptions.GetOpt, args []string) error {
				key := gname + taskID(i)
				v, _ := failed.LoadOrStore(key, new(int32))
				a := atomic.AddInt32(v.(*int32), 1) - 1
				for j := 0; j < frags; j++ {
					out := dag.Stdout(ctx)
					if j%2 == 1 {
						out = dag.Stderr(ctx)
					}
					fmt.Fprintf(out, "%s#%d:%d;", key, a, j)
					spin(c.Spin[i] / 4)
					runtime.Gosched()
				}
				if a == 0 && i < len(c.Out) && c.Out[i] == "err" {
					return fmt.Errorf("first attempt of %s fails", key)
				}
				return nil
			})
		}
		return ts
	}
	build := func(name, mode string, max, extra int, deps [][]int) *dag.Graph {
		g := dag.NewGraph(name)
		g.TickerDuration = time.Microsecond
		ApplyMode(g, mode, max, extra)
		g.SetOutputBuffer(w)
		ts := mkTasks(name)
		for i := 0; i < c.N; i++ {
			g.AddTask(ts[i])
			if i < len(c.Out) && c.Out[i] == "err" {
				g.TaskRetries(ts[i], 1)
			}
		}
		for i := 0; i < c.N; i++ {
			for _, d := range deps[i] {
				g.TaskDependsOn(ts[i], ts[d])
			}
		}
		return g
	}
	mode2, max2 := "parallel", 0
	if c.Max2 > 0 {
		mode2, max2 = "max", c.Max2
	}
	g1 := build("A", c.Mode, c.Max, c.SerialExtra, c.Deps)
	g2 := build("B", mode2, max2, 0, c.Deps2)
	var wg sync.WaitGroup
	errs := make([]error, 2)
	oks := make([]bool, 2)
	for k, g := range []*dag.Graph{g1, g2} {
		k, g := k, g
		wg.Add(1)
		go func() { defer wg.Done(); errs[k], oks[k] = runBounded(g) }()
	}
	wg.Wait()
	if !oks[0] || !oks[1] {
		return fmt.Errorf("inconclusive: Run did not return within 30s")
	}
	if errs[0] != nil || errs[1] != nil {
		return fmt.Errorf("Run returned %v / %v although every task succeeds at its last attempt", errs[0], errs[1])
	}
	w.mu.Lock()
	text := string(w.buf)
	w.mu.Unlock()
	parts := strings.Split(strings.TrimSuffix(text, ";"), ";")
	want := 0
	for _, gname := range []string{"A", "B"} {
		for i := 0; i < c.N; i++ {
			want += frags
			if i < len(c.Out) && c.Out[i] == "err" {
				want += frags
			}
			_ = gname
		}
	}
	if len(parts) != want {
		return fmt.Errorf("writer received %d fragments, the attempts wrote %d (output lost or duplicated): %q", len(parts), want, text)
	}
	for b := 0; b+frags <= len(parts); b += frags {
		head := strings.SplitN(parts[b], ":", 2)[0]
		for j := 0; j < frags; j++ {
			if parts[b+j] != fmt.Sprintf("%s:%d", head, j) {
				return fmt.Errorf("output of attempt %s is not one contiguous block: fragment %d of the writer's content is %q, expected %q (graph A mode %s limit %d extra %d, graph B mode %s limit %d); content: %q", head, b+j, parts[b+j], fmt.Sprintf("%s:%d", head, j), c.Mode, c.Max, c.SerialExtra, mode2, max2, text)
			}
		}
	}
	return nil
}

var sharedWriter = &freeProp{ID: "C15", Sub: "shared-writer",
	Rule: "free-running: two graphs (A: generated mode incl. serial and serial combined with a limit; B: parallel or limited) with SetOutputBuffer on the SAME mutex-protected writer run concurrently; every attempt (some tasks fail once and are retried) writes 4 tagged fragments alternating between dag.Stdout and dag.Stderr with yields in between; the writer's content must be a concatenation of whole per-attempt blocks, nothing lost or duplicated; distinct by case",
	Gen: func(t *rapid.T) *FreeCase {
		c := genFree(t, []string{"serial", "serial", "max", "parallel"}, 6, true)
		c.Max2 = rapid.IntRange(0, 4).Draw(t, "max2")
		c.Out = make([]string, c.N)
		for i := range c.Out {
			c.Out[i] = "ok"
			if chance(t, "failsonce", 20) {
				c.Out[i] = "err"
			}
		}
		return c
	},
	Check: checkSharedWriter,
}

func TestC15_sharedwriter(t *testing.T) { sharedWriter.run(t) }

// --- C13: a graph that is Run again after it was extended: a task added on top of a task that failed, was skipped
// or never ran in the first Run must not be entered in the second (its dependency never returned nil) ---

func checkFreeStagesOrder(c *FreeCase) error {
	var mu sync.Mutex
	okDone := map[string]bool{}   // tasks that have returned nil (in either Run)
	failed := map[string]bool{}   // tasks that ran and returned an ordinary error
	entered2 := map[string]bool{} // tasks entered during the second Run
	var viol []string
	deps2 := map[string][]string{}
	mk := func(id string, out string, deps func() []string, spinN int) *dag.Task {
		return dag.NewTask(id, func(ctx context.Context, opt *getoptions.GetOpt, args []string) error {
			mu.Lock()
			if args[0] == "1" {
				for _, d := range deps() {
					if !okDone[d] {
						viol = append(viol, fmt.Sprintf("%s entered (first Run) although its dependency %s has not returned nil", id, d))
					}
				}
			} else {
				entered2[id] = true
			}
			mu.Unlock()
			spin(spinN)
			switch out {
			case "err":
				mu.Lock()
				failed[id] = true
				mu.Unlock()
				return fmt.Errorf("failure of %s", id)
			case "skip":
				return dag.ErrorSkipParents
			}
			mu.Lock()
			okDone[id] = true
			mu.Unlock()
			return nil
		})
	}
	tasks := make([]*dag.Task, c.N)
	for i := 0; i < c.N; i++ {
		i := i
		tasks[i] = mk(taskID(i), c.Out[i], func() []string { return ids(c.Deps[i]) }, c.Spin[i]/10)
	}
	g := buildFree("stages", c, c.Deps, tasks)
	done := make(chan error, 1)
	go func() { done <- g.Run(context.Background(), nil, []string{"1"}) }()
	select {
	case <-done:
	case <-time.After(30 * time.Second):
		return fmt.Errorf("inconclusive: first Run did not return within 30s")
	}
	// second stage: new tasks on top of existing ones
	for k := 0; k < c.Stage2; k++ {
		id := fmt.Sprintf("stage2-%02d", k)
		for _, d := range c.Deps2[k] {
			deps2[id] = append(deps2[id], taskID(d))
		}
		nt := mk(id, "ok", func() []string { return nil }, 0)
		g.AddTask(nt)
		for _, d := range c.Deps2[k] {
			g.TaskDependsOn(nt, tasks[d])
		}
	}
	go func() { done <- g.Run(context.Background(), nil, []string{"2"}) }()
	select {
	case <-done:
	case <-time.After(30 * time.Second):
		return fmt.Errorf("inconclusive: second Run did not return within 30s")
	}
	mu.Lock()
	defer mu.Unlock()
	// Tasks that never returned nil because a task failed: the failed ones and everything above them. (What a task
	// added after a Run may expect from a dependency that returned ErrorSkipParents, or was skipped through it, in
	// that earlier Run is not fixed by any statement and is not judged.)
	dead := map[string]bool{}
	for id := range failed {
		dead[id] = true
	}
	for changed := true; changed; {
		changed = false
		for i := 0; i < c.N; i++ {
			for _, d := range c.Deps[i] {
				if dead[taskID(d)] && !dead[taskID(i)] && !okDone[taskID(i)] {
					dead[taskID(i)], changed = true, true
				}
			}
		}
	}
	for id := range entered2 {
		for _, d := range deps2[id] {
			if dead[d] {
				viol = append(viol, fmt.Sprintf("%s, added after the first Run, was entered in the second Run although its dependency %s failed or was never started because of a failure", id, d))
			}
		}
	}
	if len(viol) > 0 {
		sort.Strings(viol)
		return fmt.Errorf("%s (first-Run outcomes %v, deps %v; tasks added before the second Run depend on %v)", viol[0], c.Out, c.Deps, c.Deps2)
	}
	return nil
}

var freeStagesOrder = &freeProp{ID: "C13", Sub: "stages-order",
	Rule: "free-running: a random DAG whose tasks succeed, fail or return ErrorSkipParents is Run; then 1-4 new tasks are added to the SAME graph, each depending on 1-2 existing tasks (which may have failed, been skipped or never run), and the graph is Run again; first Run: every task function checks on entry that each direct dependency has returned nil; second Run: no added task may be entered when one of its dependencies failed, or never started because of a failure, in the first Run (dependencies that returned ErrorSkipParents in the earlier Run: not judged); distinct by case",
	Gen: func(t *rapid.T) *FreeCase {
		c := genFree(t, []string{"parallel", "parallel", "max", "serial"}, 6, false)
		c.Out = make([]string, c.N)
		for i := range c.Out {
			c.Out[i] = "ok"
			switch {
			case chance(t, "err", 25):
				c.Out[i] = "err"
			case chance(t, "skip", 15):
				c.Out[i] = "skip"
			}
		}
		c.Stage2 = rapid.IntRange(1, 4).Draw(t, "stage2")
		c.Deps2 = make([][]int, c.Stage2)
		for k := range c.Deps2 {
			c.Deps2[k] = rapid.SliceOfNDistinct(rapid.IntRange(0, c.N-1), 1, 2, rapid.ID[int]).Draw(t, "stage2deps")
		}
		return c
	},
	Check: checkFreeStagesOrder,
}

func TestC13_stagesorder(t *testing.T) { freeStagesOrder.run(t) }
