// Package dagh is the controlled-scheduler harness for the dag properties
// (C13-C16). Every task function belongs to the harness: it records its entry,
// checks the entry invariants against the harness's model of the graph, and
// then blocks on a private gate. The driver loop decides which in-flight task
// returns next and with what result, when the context is cancelled, and waits
// (event driven) for the number of in-flight tasks the model says must be
// running. Completion order, outcomes and cancel point are therefore generated
// values of the case and replayable.
package dagh

import (
	"context"
	"errors"
	"fmt"
	"io"
	"os"
	"regexp"
	"runtime"
	"sort"
	"strings"
	"sync"
	"sync/atomic"
	"time"

	getoptions "github.com/DavidGamba/go-getoptions"
	"github.com/DavidGamba/go-getoptions/dag"
)

func init() {
	dag.Logger.SetOutput(io.Discard)
}

// Call is one graph-construction call.
type Call struct {
	Op   string `json:"op"` // add | dep | depl (edges declared through Graph.Task(id) look-ups) | retries
	T    int    `json:"t"`
	Deps []int  `json:"deps,omitempty"`
	R    int    `json:"r,omitempty"`
}

// DagCase is a complete, replayable case.
type DagCase struct {
	N           int        `json:"n"`
	Script      []Call     `json:"script"`
	Mode        string     `json:"mode"`                   // parallel | max | serial
	SerialExtra int        `json:"serial_extra,omitempty"` // serial mode only: the caller ALSO gives a limit, >0: SetSerial then SetMaxParallel(k), <0: SetMaxParallel(-k) then SetSerial; serial stays in force
	Max         int        `json:"max,omitempty"`
	Outcomes    [][]string `json:"outcomes,omitempty"` // [task][attempt]: ok | err | skip (missing = ok)
	Choices     []int      `json:"choices,omitempty"`  // which in-flight task (sorted by id) returns next: choice % len
	Settle      []bool     `json:"settle,omitempty"`   // hold the state briefly before the i-th release
	CancelAfter int        `json:"cancel_after"`       // -1 never; cancel() after that many releases
	Buffered    bool       `json:"buffered,omitempty"`
	SinkFails   bool       `json:"sink_fails,omitempty"`    // the output writer returns an error on every write (fault injection)
	TwoTaskObjs bool       `json:"two_task_objs,omitempty"` // re-adds use a second Task object with the same id
}

func taskID(i int) string { return fmt.Sprintf("task%02d", i) }

// GModel is the harness's model of the graph a script describes.
type GModel struct {
	Exists  []bool
	Deps    [][]int
	Retries []int
	DefErr  bool
	Cycle   bool
	NVert   int
}

// BuildModel interprets the script per the documented API semantics: AddTask
// of a known task keeps its edges, a duplicate edge is a definition error.
func BuildModel(c *DagCase) *GModel {
	m := &GModel{Exists: make([]bool, c.N), Deps: make([][]int, c.N), Retries: make([]int, c.N)}
	for _, call := range c.Script {
		if call.T < 0 || call.T >= c.N {
			continue
		}
		switch call.Op {
		case "add":
			m.Exists[call.T] = true
		case "retries":
			m.Exists[call.T] = true
			m.Retries[call.T] = call.R
		case "depl":
			// g.TaskDependsOn(g.Task(id), g.Task(dep)...): looking up an unknown id is a definition error
			ok := m.Exists[call.T]
			for _, d := range call.Deps {
				if d < 0 || d >= c.N || !m.Exists[d] {
					ok = false
				}
			}
			if !ok {
				m.DefErr = true
				continue
			}
			fallthrough
		case "dep":
			m.Exists[call.T] = true
		DEPS:
			for _, d := range call.Deps {
				if d < 0 || d >= c.N {
					continue
				}
				m.Exists[d] = true
				for _, e := range m.Deps[call.T] {
					if e == d {
						m.DefErr = true
						break DEPS
					}
				}
				m.Deps[call.T] = append(m.Deps[call.T], d)
			}
		}
	}
	for _, e := range m.Exists {
		if e {
			m.NVert++
		}
	}
	// cycle detection
	color := make([]int, c.N)
	var visit func(i int) bool
	visit = func(i int) bool {
		color[i] = 1
		for _, d := range m.Deps[i] {
			if color[d] == 1 {
				return true
			}
			if color[d] == 0 && visit(d) {
				return true
			}
		}
		color[i] = 2
		return false
	}
	for i := 0; i < c.N; i++ {
		if m.Exists[i] && color[i] == 0 && visit(i) {
			m.Cycle = true
		}
	}
	return m
}

// Dependents returns the transitive dependents of i (tasks that depend on it).
func (m *GModel) Dependents(i int) []int {
	seen := map[int]bool{}
	var rec func(x int)
	rec = func(x int) {
		for j := range m.Deps {
			for _, d := range m.Deps[j] {
				if d == x && !seen[j] {
					seen[j] = true
					rec(j)
				}
			}
		}
	}
	rec(i)
	var out []int
	for j := range seen {
		out = append(out, j)
	}
	sort.Ints(out)
	return out
}

// Event is one entry of the history.
type Event struct {
	Seq     int    `json:"seq"`
	Kind    string `json:"kind"` // enter | finish | release | cancel | run-returned
	Task    int    `json:"task"`
	Attempt int    `json:"attempt"`
	Result  string `json:"result,omitempty"`
}

// Violation is an invariant failure tagged with the property it belongs to.
type Violation struct {
	Prop string `json:"prop"`
	Msg  string `json:"msg"`
}

const (
	sPending = iota
	sInflight
	sRetry // finished a failing attempt, will re-enter
	sOK
	sFailed
	sSkipper
)

// Result is everything the harness observed.
type Result struct {
	Model            *GModel
	Hist             []Event
	Viol             []Violation
	RunErr           error
	RunReturned      bool
	Stalled          bool
	Entries          int
	MaxInflight      int
	Quiescent        int  // quiescent points reached in normal mode
	BoundBinding     bool // ready tasks exceeded the capacity at some instant
	Retried          bool
	FailedSeen       bool
	SkipSeen         bool
	Cancelled        bool
	NotReadyAtCancel int
	Overlap          bool // >=2 tasks in flight at some instant
	Output           string
	MidSorts         int
	DFSChecked       bool
	Dump             string
}

// Has reports whether a violation with the tag exists.
func (r *Result) Has(prop string) *Violation {
	for i := range r.Viol {
		if r.Viol[i].Prop == prop {
			return &r.Viol[i]
		}
	}
	return nil
}

type sink struct {
	buf   []byte
	fails bool
}

func (s *sink) Write(p []byte) (int, error) {
	if s.fails {
		return 0, errors.New("injected output writer failure")
	}
	s.buf = append(s.buf, p...)
	return len(p), nil
}

type run struct {
	c   *DagCase
	m   *GModel
	mu  sync.Mutex
	res *Result

	seq       int
	attempts  []int
	inflight  map[int]int
	state     []int
	lastRes   []string
	skippedK  []bool // transitive dependents of a task that returned ErrorSkipParents
	cancelled bool
	notReady  []bool // not ready when cancel() returned
	draining  bool
	entered   chan int
	finished  chan int
	gates     []chan error
	sentinels []error
	capacity  int
	abandoned bool
}

func (r *run) viol(prop, format string, a ...interface{}) {
	r.res.Viol = append(r.res.Viol, Violation{Prop: prop, Msg: fmt.Sprintf(format, a...)})
}

func (r *run) record(kind string, task, attempt int, result string) {
	r.seq++
	r.res.Hist = append(r.res.Hist, Event{Seq: r.seq, Kind: kind, Task: task, Attempt: attempt, Result: result})
}

func (r *run) outcome(i, a int) string {
	if i < len(r.c.Outcomes) && a < len(r.c.Outcomes[i]) && r.c.Outcomes[i][a] != "" {
		return r.c.Outcomes[i][a]
	}
	return "ok"
}

// checkEntry runs under r.mu at the moment task i is entered.
func (r *run) checkEntry(i, a int) {
	id := taskID(i)
	for _, d := range r.m.Deps[i] {
		switch r.state[d] {
		case sOK:
		case sPending, sInflight, sRetry:
			r.viol("C13", "%s entered (attempt %d) while its dependency %s has not finished successfully (state %s)", id, a, taskID(d), stateName(r.state[d]))
		case sFailed:
			r.viol("C14", "%s entered although its dependency %s failed", id, taskID(d))
			r.viol("C13", "%s entered although its dependency %s did not return nil (its final attempt returned an error)", id, taskID(d))
		case sSkipper:
			r.viol("C14", "%s entered although its dependency %s returned ErrorSkipParents", id, taskID(d))
			r.viol("C13", "%s entered although its dependency %s did not return nil (it returned ErrorSkipParents)", id, taskID(d))
		}
	}
	if r.skippedK[i] {
		r.viol("C14", "%s entered although a transitive dependency returned ErrorSkipParents", id)
	}
	// transitive failed dependency (direct ones are covered above; indirect ones imply an unfinished direct one)
	if a == 0 {
		if r.state[i] != sPending {
			r.viol("C13", "%s entered a second time (state %s) without a retry being due", id, stateName(r.state[i]))
		}
	} else {
		if r.state[i] != sRetry {
			r.viol("C13", "%s entered for attempt %d in state %s (previous result %q): attempts must follow a failed attempt one after another", id, a, stateName(r.state[i]), r.lastRes[i])
		}
		if a > r.m.Retries[i] {
			r.viol("C13", "%s entered for attempt %d but has only %d retries", id, a, r.m.Retries[i])
		}
	}
	if _, running := r.inflight[i]; running {
		r.viol("C13", "%s entered while another attempt of it is executing", id)
	}
	if len(r.inflight)+1 > r.capacity {
		lim := "SetMaxParallel(" + fmt.Sprint(r.c.Max) + ")"
		if r.c.Mode == "serial" {
			lim = "serial mode"
		}
		r.viol("C15", "%s entered while %d other task functions are executing: exceeds %s", id, len(r.inflight), lim)
	}
	if r.cancelled && r.notReady[i] {
		r.viol("C14", "%s was launched after cancellation had been observed (it was not ready when cancel() returned)", id)
	}
}

func stateName(s int) string {
	return [...]string{"pending", "in progress", "retrying", "succeeded", "failed", "returned ErrorSkipParents"}[s]
}

func (r *run) fn(i int) getoptions.CommandFn {
	return func(ctx context.Context, opt *getoptions.GetOpt, args []string) error {
		r.mu.Lock()
		a := r.attempts[i]
		r.attempts[i]++
		r.checkEntry(i, a)
		r.inflight[i] = a
		r.state[i] = sInflight
		r.res.Entries++
		if len(r.inflight) > r.res.MaxInflight {
			r.res.MaxInflight = len(r.inflight)
		}
		if len(r.inflight) >= 2 {
			r.res.Overlap = true
		}
		if a > 0 {
			r.res.Retried = true
		}
		r.record("enter", i, a, "")
		aband := r.abandoned
		r.mu.Unlock()
		if r.c.Buffered {
			fmt.Fprintf(dag.Stdout(ctx), "<%s.%d:A>", taskID(i), a)
		}
		if aband {
			return nil
		}
		r.entered <- i
		res := <-r.gates[i]
		if r.c.Buffered {
			fmt.Fprintf(dag.Stderr(ctx), "<%s.%d:B>", taskID(i), a)
		}
		r.mu.Lock()
		delete(r.inflight, i)
		out := "ok"
		switch {
		case res == nil:
			r.state[i] = sOK
		case errors.Is(res, dag.ErrorSkipParents):
			out = "skip"
			if a < r.m.Retries[i] {
				r.state[i] = sRetry
			} else {
				r.state[i] = sSkipper
				r.res.SkipSeen = true
				for _, j := range r.m.Dependents(i) {
					r.skippedK[j] = true
				}
			}
		default:
			out = "err"
			if a < r.m.Retries[i] {
				r.state[i] = sRetry
			} else {
				r.state[i] = sFailed
				r.res.FailedSeen = true
				r.draining = true
			}
		}
		r.lastRes[i] = out
		r.record("finish", i, a, out)
		r.mu.Unlock()
		r.finished <- i
		return res
	}
}

// readyCount: pending tasks (not skipped) whose dependencies all succeeded. Under r.mu.
func (r *run) readyList() []int {
	var out []int
	for i := 0; i < r.c.N; i++ {
		if !r.m.Exists[i] || r.state[i] != sPending || r.skippedK[i] {
			continue
		}
		ok := true
		for _, d := range r.m.Deps[i] {
			if r.state[d] != sOK {
				ok = false
			}
		}
		if ok {
			out = append(out, i)
		}
	}
	return out
}

// StallBound is how long the driver waits for the state the model requires. When it expires the wait is
// extended by StallConfirm: a loaded machine makes progress eventually, a lost wake-up / deadlock never does.
// Only a wait that is still stuck after StallBound+StallConfirm is reported ("STALL-CONFIRMED"). Once a stall
// has been confirmed in a process, later ones (shrinking re-executes the same hang) use the short bound.
var StallBound = 5 * time.Second
var StallConfirm = 30 * time.Second
var stallSeen int32

// stallWait is the wait that, when it expires, is reported as a stall.
func stallWait() time.Duration {
	if atomic.LoadInt32(&stallSeen) != 0 {
		return StallBound
	}
	return StallBound + StallConfirm
}

func init() {
	if v := os.Getenv("VERIF_STALL_BOUND"); v != "" {
		if d, err := time.ParseDuration(v); err == nil {
			StallBound = d
		}
	}
}

var blockRe = regexp.MustCompile(`<(task\d\d)\.(\d+):A><(task\d\d)\.(\d+):B>`)

// Execute runs the case against the real dag package.
// ApplyMode configures the concurrency mode of g. A serial graph may additionally be given a limit through
// SetMaxParallel, before or after SetSerial: "in serial mode never more than one" holds whatever else was configured.
func ApplyMode(g *dag.Graph, mode string, max, serialExtra int) {
	switch mode {
	case "serial":
		switch {
		case serialExtra > 0:
			g.SetSerial()
			g.SetMaxParallel(serialExtra)
		case serialExtra < 0:
			g.SetMaxParallel(-serialExtra)
			g.SetSerial()
		default:
			g.SetSerial()
		}
	case "max":
		g.SetMaxParallel(max)
	}
}

func Execute(c *DagCase) *Result {
	m := BuildModel(c)
	res := &Result{Model: m}
	r := &run{c: c, m: m, res: res, attempts: make([]int, c.N), inflight: map[int]int{}, state: make([]int, c.N), lastRes: make([]string, c.N), skippedK: make([]bool, c.N), notReady: make([]bool, c.N), entered: make(chan int, 64*(c.N+1)), finished: make(chan int, 64*(c.N+1)), gates: make([]chan error, c.N), sentinels: make([]error, c.N)}
	switch c.Mode {
	case "serial":
		r.capacity = 1
	case "max":
		r.capacity = c.Max
	default:
		r.capacity = 1 << 30
	}
	tasks := make([]*dag.Task, c.N)
	tasks2 := make([]*dag.Task, c.N)
	for i := 0; i < c.N; i++ {
		r.gates[i] = make(chan error)
		r.sentinels[i] = fmt.Errorf("sentinel failure of %s", taskID(i))
		tasks[i] = dag.NewTask(taskID(i), r.fn(i))
		tasks2[i] = dag.NewTask(taskID(i), r.fn(i))
	}
	g := dag.NewGraph("g")
	g.TickerDuration = time.Microsecond
	ApplyMode(g, c.Mode, c.Max, c.SerialExtra)
	out := &sink{fails: c.SinkFails}
	if c.Buffered {
		g.SetOutputBuffer(out)
	}
	added := make([]bool, c.N)
	for k, call := range c.Script {
		if call.T < 0 || call.T >= c.N {
			continue
		}
		switch call.Op {
		case "sort":
			// a query in the middle of the definition: judged against the graph described so far; it must
			// not influence what later calls, the final sort or Run do
			if pm := BuildModel(&DagCase{N: c.N, Script: c.Script[:k]}); !pm.DefErr {
				r.checkSort(g, pm, fmt.Sprintf(" (called after %d of %d construction calls)", k, len(c.Script)))
				res.MidSorts++
			}
		case "add":
			t := tasks[call.T]
			if added[call.T] && c.TwoTaskObjs {
				t = tasks2[call.T]
			}
			g.AddTask(t)
			added[call.T] = true
		case "retries":
			g.TaskRetries(tasks[call.T], call.R)
			added[call.T] = true
		case "depl":
			var ds []*dag.Task
			for _, d := range call.Deps {
				if d >= 0 && d < c.N {
					ds = append(ds, g.Task(taskID(d)))
				}
			}
			g.TaskDependsOn(g.Task(taskID(call.T)), ds...)
		case "dep":
			var ds []*dag.Task
			for _, d := range call.Deps {
				if d >= 0 && d < c.N {
					ds = append(ds, tasks[d])
				}
			}
			g.TaskDependsOn(tasks[call.T], ds...)
			added[call.T] = true
			for _, d := range call.Deps {
				if d >= 0 && d < c.N {
					added[d] = true
				}
			}
		}
	}
	// DepthFirstSort (C16)
	if !m.DefErr {
		res.DFSChecked = true
		r.checkSort(g, m, "")
	}

	ctx, cancel := context.WithCancel(context.Background())
	defer cancel()
	runDone := make(chan error, 1)
	go func() { runDone <- g.Run(ctx, nil, nil) }()

	noTasks := m.DefErr || m.Cycle || m.NVert == 0
	released := 0
	choiceIdx := 0
	var runErr error
	returned := false

	stall := func(what string) {
		atomic.StoreInt32(&stallSeen, 1)
		res.Stalled = true
		buf := make([]byte, 1<<16)
		n := runtime.Stack(buf, true)
		res.Dump = string(buf[:n])
		r.mu.Lock()
		infl := len(r.inflight)
		r.viol("C16", "STALL-CONFIRMED: %s (still stuck after %s + %s): %d task functions in flight, Run has not returned", what, StallBound, StallConfirm, infl)
		r.abandoned = true
		r.mu.Unlock()
		// let everything go so that no task goroutine outlives the case
	DRAIN:
		for {
			r.mu.Lock()
			var ids []int
			for i := range r.inflight {
				ids = append(ids, i)
			}
			r.mu.Unlock()
			if len(ids) == 0 {
				break
			}
			for _, i := range ids {
				select {
				case r.gates[i] <- nil:
					select {
					case <-r.finished:
					case <-time.After(time.Second):
						break DRAIN
					}
				case <-time.After(100 * time.Millisecond):
				}
			}
		}
	}

	doCancel := func() {
		r.mu.Lock()
		for i := 0; i < c.N; i++ {
			if !m.Exists[i] || r.state[i] != sPending {
				continue
			}
			for _, d := range m.Deps[i] {
				if r.state[d] != sOK {
					r.notReady[i] = true
				}
			}
			if r.notReady[i] && !r.skippedK[i] {
				res.NotReadyAtCancel++
			}
		}
		r.record("cancel", -1, 0, "")
		r.mu.Unlock()
		cancel()
		r.mu.Lock()
		r.cancelled = true
		r.draining = true
		res.Cancelled = true
		r.mu.Unlock()
	}

	release := func() bool {
		r.mu.Lock()
		var ids []int
		for i := range r.inflight {
			ids = append(ids, i)
		}
		sort.Ints(ids)
		r.mu.Unlock()
		if len(ids) == 0 {
			return true
		}
		if !returned {
			select {
			case runErr = <-runDone:
				returned = true
				r.mu.Lock()
				r.viol("C16", "Run returned (%v) while %d task function(s) were still executing: %v", runErr, len(ids), idsOf(ids))
				r.viol("C14", "Run returned (%v) while %d task function(s) were still executing (in-flight tasks must be allowed to finish before Run reports)", runErr, len(ids))
				r.abandoned = true
				r.mu.Unlock()
			default:
			}
		}
		ch := 0
		if choiceIdx < len(c.Choices) {
			ch = c.Choices[choiceIdx]
		}
		if choiceIdx < len(c.Settle) && c.Settle[choiceIdx] {
			time.Sleep(300 * time.Microsecond)
		}
		choiceIdx++
		if ch < 0 {
			ch = -ch
		}
		i := ids[ch%len(ids)]
		r.mu.Lock()
		a := r.inflight[i]
		oc := r.outcome(i, a)
		r.record("release", i, a, oc)
		r.mu.Unlock()
		var e error
		switch oc {
		case "err":
			e = r.sentinels[i]
		case "errc": // the task's own sub-context was cancelled: still a failure of the task
			e = fmt.Errorf("%w: %w", r.sentinels[i], context.Canceled)
		case "errd":
			e = fmt.Errorf("%w: %w", r.sentinels[i], context.DeadlineExceeded)
		case "skip":
			e = dag.ErrorSkipParents
		}
		select {
		case r.gates[i] <- e:
		case <-time.After(stallWait()):
			stall("task " + taskID(i) + " does not take its release")
			return false
		}
		select {
		case <-r.finished:
		case <-time.After(stallWait()):
			stall("task " + taskID(i) + " did not finish after its release")
			return false
		}
		released++
		return true
	}

LOOP:
	for {
		if returned {
			// Run is gone (flagged above): let the remaining task functions go and stop
			for {
				r.mu.Lock()
				n := len(r.inflight)
				r.mu.Unlock()
				if n == 0 || !release() {
					break
				}
			}
			break LOOP
		}
		if c.CancelAfter >= 0 && released == c.CancelAfter && !res.Cancelled && !noTasks {
			// cancel only at a quiescent point of normal mode (handled below) or right away in drain mode
			r.mu.Lock()
			dr := r.draining
			r.mu.Unlock()
			if dr {
				doCancel()
			}
		}
		r.mu.Lock()
		draining := r.draining
		var want int
		if !draining {
			retrying := 0
			for i := 0; i < c.N; i++ {
				if r.state[i] == sRetry {
					retrying++
				}
			}
			ready := len(r.readyList())
			cur := len(r.inflight) + retrying
			want = cur + ready
			if want > r.capacity {
				want = r.capacity
				if cur+ready > r.capacity {
					res.BoundBinding = true
				}
			}
			if noTasks {
				want = 0
			}
		}
		r.mu.Unlock()

		if !draining {
			// wait (event driven) until the model's number of tasks is in flight
			for {
				r.mu.Lock()
				n := len(r.inflight)
				dr := r.draining
				r.mu.Unlock()
				if n >= want || dr {
					break
				}
				select {
				case <-r.entered:
				case runErr = <-runDone:
					returned = true
					r.mu.Lock()
					r.viol("C16", "Run returned while %d task(s) whose dependencies had all completed were never started (no failure or cancellation so far)", want-n)
					r.mu.Unlock()
					break LOOP
				case <-time.After(stallWait()):
					r.mu.Lock()
					n2 := len(r.inflight)
					ready := r.readyList()
					r.mu.Unlock()
					var names []string
					for _, i := range ready {
						names = append(names, taskID(i))
					}
					stall(fmt.Sprintf("waiting for %d task functions in flight, have %d; ready but not started: %v", want, n2, names))
					break LOOP
				}
			}
			r.mu.Lock()
			res.Quiescent++
			r.mu.Unlock()
			if want == 0 {
				// nothing running, nothing can run: Run must return
				for {
					if returned {
						break LOOP
					}
					select {
					case runErr = <-runDone:
						returned = true
						break LOOP
					case <-r.entered:
						r.mu.Lock()
						n := len(r.inflight)
						if n > 0 {
							// a task started although the model says nothing can run (flagged by the entry
							// checks / the final checks where a statement forbids it): let everything drain
							r.draining = true
						}
						r.mu.Unlock()
						if n > 0 {
							continue LOOP
						}
					case <-time.After(stallWait()):
						stall("nothing is in flight and nothing can run any more")
						break LOOP
					}
				}
			}
			if c.CancelAfter >= 0 && released == c.CancelAfter && !res.Cancelled {
				doCancel()
				continue
			}
			if !release() {
				break LOOP
			}
			continue
		}
		// drain mode: a failure or cancellation happened; independent tasks may or may not still start
		r.mu.Lock()
		n := len(r.inflight)
		r.mu.Unlock()
		if n > 0 {
			if !release() {
				break LOOP
			}
			continue
		}
		select {
		case <-r.entered:
		case runErr = <-runDone:
			returned = true
			break LOOP
		case <-time.After(stallWait()):
			stall("drain: nothing in flight")
			break LOOP
		}
	}
	if !returned && res.Stalled {
		// everything in flight has been let go: if Run returns now, what it reports can still be judged
		select {
		case runErr = <-runDone:
			returned = true
		case <-time.After(StallBound):
		}
	}
	res.RunErr = runErr
	res.RunReturned = returned
	r.mu.Lock()
	r.record("run-returned", -1, 0, fmt.Sprint(runErr))
	r.mu.Unlock()
	if !returned {
		return res
	}
	if !(c.Buffered && c.SinkFails) {
		// what Run reports when the caller's output writer fails is not fixed by the statements
		r.checkResult(noTasks)
	}
	if c.Buffered && !noTasks && !c.SinkFails {
		res.Output = string(out.buf)
		r.checkOutput()
	}
	return res
}

// checkSort judges DepthFirstSort against the model of the graph defined so far.
func (r *run) checkSort(g *dag.Graph, m *GModel, when string) {
	c := r.c
	sorted, err := g.DepthFirstSort()
	if m.Cycle {
		if err == nil {
			r.viol("C16", "DepthFirstSort%s returned no error for a graph with a dependency cycle", when)
		}
		return
	}
	if err != nil {
		r.viol("C16", "DepthFirstSort%s failed on an acyclic graph: %v", when, err)
		return
	}
	pos := map[string]int{}
	for k, v := range sorted {
		if _, dup := pos[string(v.ID)]; dup {
			r.viol("C16", "DepthFirstSort%s lists %s twice", when, v.ID)
		}
		pos[string(v.ID)] = k
	}
	for i := 0; i < c.N; i++ {
		if !m.Exists[i] {
			continue
		}
		pi, ok := pos[taskID(i)]
		if !ok {
			r.viol("C16", "DepthFirstSort%s omits %s", when, taskID(i))
			continue
		}
		for _, d := range m.Deps[i] {
			if pd, ok := pos[taskID(d)]; ok && pd > pi {
				r.viol("C16", "DepthFirstSort%s places %s before its dependency %s", when, taskID(i), taskID(d))
			}
		}
	}
	if len(sorted) != m.NVert {
		r.viol("C16", "DepthFirstSort%s returned %d vertices for a graph of %d", when, len(sorted), m.NVert)
	}
}

func (r *run) checkResult(noTasks bool) {
	m, res, c := r.m, r.res, r.c
	err := res.RunErr
	if m.NVert == 0 && !m.DefErr {
		if err != nil {
			r.viol("C16", "Run on an empty graph returned %v", err)
		}
		return
	}
	if noTasks {
		if res.Entries != 0 {
			if m.Cycle {
				r.viol("C16", "%d task function(s) started although the graph has a dependency cycle", res.Entries)
			}
		}
		if err == nil {
			if m.Cycle {
				r.viol("C16", "Run returned nil for a graph with a dependency cycle")
			}
		} else if m.Cycle && !m.DefErr && !errors.Is(err, dag.ErrorGraphHasCycle) {
			r.viol("C16", "graph with a dependency cycle and an otherwise error-free definition: Run returned %q which is not ErrorGraphHasCycle", err)
		}
		return
	}
	var F, N, NK []int
	for i := 0; i < c.N; i++ {
		if !m.Exists[i] {
			continue
		}
		switch {
		case r.state[i] == sFailed:
			F = append(F, i)
		case r.attempts[i] == 0:
			N = append(N, i)
			if !r.skippedK[i] {
				NK = append(NK, i)
			}
		}
	}
	if !res.Cancelled && len(F) == 0 && err != nil {
		r.viol("C14", "no task failed and nothing was cancelled (ErrorSkipParents alone does not make Run fail), yet Run returned %q; never started and not skipped through ErrorSkipParents: %v", err, ids(NK))
		return
	}
	wantNil := !res.Cancelled && len(F) == 0 && len(NK) == 0
	if res.Cancelled && len(F) == 0 && len(NK) == 0 && res.NotReadyAtCancel == 0 {
		// the loop may legitimately finish before looking at the context: either result accepted
		if err == nil {
			return
		}
	}
	if wantNil {
		if err != nil {
			r.viol("C14", "every task ran successfully or was skipped through ErrorSkipParents, no cancellation, yet Run returned %q", err)
		}
		return
	}
	if err == nil {
		r.viol("C14", "Run returned nil although failed=%v never-started-and-not-skipped-by-ErrorSkipParents=%v cancelled=%v", ids(F), ids(NK), res.Cancelled)
		return
	}
	var es *dag.Errors
	if !errors.As(err, &es) {
		r.viol("C14", "Run returned %T %q, want a *dag.Errors", err, err)
		return
	}
	for _, f := range F {
		found := false
		for _, e := range es.Errors {
			if errors.Is(e, r.sentinels[f]) {
				found = true
			}
		}
		if !found {
			r.viol("C14", "Run's error %q has no entry wrapping the error returned by failed task %s", err, taskID(f))
		}
	}
	for _, t := range NK {
		cnt := 0
		for _, e := range es.Errors {
			if errors.Is(e, dag.ErrorTaskSkipped) && strings.Contains(e.Error(), taskID(t)) {
				cnt++
			}
		}
		if cnt != 1 {
			r.viol("C14", "task %s was never started: want exactly one entry wrapping ErrorTaskSkipped that names it, found %d in %q", taskID(t), cnt, err)
		}
	}
	for i := 0; i < c.N; i++ {
		if !m.Exists[i] {
			continue
		}
		reported := 0
		for _, e := range es.Errors {
			if errors.Is(e, dag.ErrorTaskSkipped) && strings.Contains(e.Error(), taskID(i)) {
				reported++
			}
		}
		if reported > 0 && r.attempts[i] > 0 {
			r.viol("C14", "task %s ran yet is reported as skipped in %q", taskID(i), err)
		}
		if reported > 0 && r.skippedK[i] && r.attempts[i] == 0 {
			r.viol("C14", "task %s was skipped through ErrorSkipParents yet is reported in %q", taskID(i), err)
		}
	}
}

func idsOf(xs []int) []string { return ids(xs) }

func ids(xs []int) []string {
	var out []string
	for _, x := range xs {
		out = append(out, taskID(x))
	}
	return out
}

// checkOutput: the sink must hold a concatenation of whole per-attempt blocks, one per attempt.
func (r *run) checkOutput() {
	out := r.res.Output
	rest := blockRe.ReplaceAllStringFunc(out, func(b string) string {
		mm := blockRe.FindStringSubmatch(b)
		if mm[1] != mm[3] || mm[2] != mm[4] {
			return "!" + b
		}
		return ""
	})
	if rest != "" {
		r.viol("C15", "buffered output is not a sequence of contiguous per-attempt blocks: %q", out)
		return
	}
	want := 0
	for _, e := range r.res.Hist {
		if e.Kind == "enter" {
			want++
		}
	}
	got := len(blockRe.FindAllString(out, -1))
	if got != want {
		r.viol("C15", "buffered output holds %d blocks for %d task attempts: %q", got, want, out)
	}
	seen := map[string]bool{}
	for _, mm := range blockRe.FindAllStringSubmatch(out, -1) {
		k := mm[1] + "." + mm[2]
		if seen[k] {
			r.viol("C15", "output block of %s written twice: %q", k, out)
		}
		seen[k] = true
	}
}
