package cli

import (
	"encoding/json"
	"fmt"
	"os"
	"os/exec"
	"strings"
	"testing"

	"pgregory.net/rapid"

	"verif/harness/evid"
)

// The test binary doubles as a child program: with VERIF_CHILD set it does not run tests but
//
//	comp   - builds the definition in VERIF_CHILD_FILE and calls Parse with the REAL exit function and stdout
//	         (COMP_LINE / ZSHELL come from the environment): observes the true exit status and output
//	digest - executes a C20 case once in a fresh process and prints the digest of every observable output
func TestMain(m *testing.M) {
	switch os.Getenv("VERIF_CHILD") {
	case "":
		os.Exit(m.Run())
	case "comp":
		childComp()
	case "digest":
		childDigest()
	}
	os.Exit(97)
}

type compChildInput struct {
	Spec *ProgSpec `json:"spec"`
	Args []string  `json:"args"`
}

func childComp() {
	b, err := os.ReadFile(os.Getenv("VERIF_CHILD_FILE"))
	if err != nil {
		fmt.Fprintln(os.Stderr, "child:", err)
		os.Exit(98)
	}
	var in compChildInput
	if err := json.Unmarshal(b, &in); err != nil {
		fmt.Fprintln(os.Stderr, "child:", err)
		os.Exit(98)
	}
	for k, v := range in.Spec.Env {
		os.Setenv(k, v)
	}
	built := Build(in.Spec)
	_, _ = built.Root.G.Parse(in.Args)
	// a completion request must not get here
	fmt.Fprintf(os.Stderr, "RETURNED invocations=%d\n", len(built.Log))
	os.Exit(0)
}

func childDigest() {
	b, err := os.ReadFile(os.Getenv("VERIF_CHILD_FILE"))
	if err != nil {
		os.Exit(98)
	}
	var c C20Case
	if err := json.Unmarshal(b, &c); err != nil {
		os.Exit(98)
	}
	o := observeC20(c)
	fmt.Println(digestOf(o))
	os.Exit(0)
}

func runChild(mode, file string, env map[string]string) (stdout, stderr string, code int, err error) {
	cmd := exec.Command(os.Args[0], "-test.run=^$")
	cmd.Env = append(os.Environ(), "VERIF_CHILD="+mode, "VERIF_CHILD_FILE="+file)
	for k, v := range env {
		cmd.Env = append(cmd.Env, k+"="+v)
	}
	var so, se strings.Builder
	cmd.Stdout, cmd.Stderr = &so, &se
	err = cmd.Run()
	code = 0
	if ee, ok := err.(*exec.ExitError); ok {
		code = ee.ExitCode()
		err = nil
	}
	return so.String(), se.String(), code, err
}

// TestC17_subprocess: the same cases as the in-process check, but the program is a real process with the real
// os.Exit and os.Stdout: exit status must be 124 and stdout must equal what the in-process (hooked) run printed.
func TestC17_subprocess(t *testing.T) {
	st := evid.New("C17", "subprocess", "rapid: the C17 generator; each case is run in-process through the hook AND as a real child process (the test binary re-executed as the program, real os.Exit and os.Stdout) with COMP_LINE/ZSHELL set; the child must exit with status 124 and print byte for byte what the hooked run printed; non-trivial = at least one candidate; distinct by COMP_LINE + shell")
	defer st.Write()
	dir := t.TempDir()
	n := 0
	rapid.Check(t, func(rt *rapid.T) {
		c := genC17(rt)
		for _, w := range append(append([]string{}, c.Earlier...), c.Last) {
			if strings.ContainsAny(w, " \t\n\r\v\f") {
				return
			}
		}
		compLine := "./prog"
		for _, w := range c.Earlier {
			compLine += " " + w
		}
		compLine += " " + c.Last
		prev := "./prog"
		if len(c.Earlier) > 0 {
			prev = c.Earlier[len(c.Earlier)-1]
		}
		args := []string{"./prog", c.Last, prev}
		co := RunCompletion(c.Spec, compLine, c.Zsh, args)
		if co.Panic != "" {
			rt.Fatalf("panic: %s", co.Panic)
		}
		n++
		file := fmt.Sprintf("%s/case-%d.json", dir, n)
		b, _ := json.Marshal(compChildInput{Spec: c.Spec, Args: args})
		if err := os.WriteFile(file, b, 0o644); err != nil {
			rt.Fatalf("write: %v", err)
		}
		env := map[string]string{"COMP_LINE": compLine, "ZSHELL": ""}
		if c.Zsh {
			env["ZSHELL"] = "true"
		}
		so, se, code, err := runChild("comp", file, env)
		os.Remove(file)
		if err != nil {
			rt.Fatalf("child did not run: %v", err)
		}
		st.Eval()
		if len(co.Lines) > 0 {
			if st.NT(compLine + fmt.Sprint(c.Zsh)) {
				st.Sample(map[string]interface{}{"comp_line": compLine, "zsh": c.Zsh, "exit_status": code, "stdout": so})
			}
		}
		fail := ""
		switch {
		case code != 124:
			fail = fmt.Sprintf("real process exited with status %d (stderr %q), want 124 through the completion exit path", code, se)
		case so != co.Out:
			fail = fmt.Sprintf("real process printed %q, the in-process run printed %q", so, co.Out)
		case se != co.Writer:
			fail = fmt.Sprintf("real process wrote %q to stderr, the in-process run wrote %q to Writer", se, co.Writer)
		}
		if fail != "" {
			path := evid.SaveFail("C17", "completion", c, fail+" COMP_LINE="+compLine)
			rt.Fatalf("C17/subprocess violated: %s COMP_LINE=%q\ncase file: %s", fail, compLine, path)
		}
	})
}

// TestC20_xproc: the same case executed in two fresh processes (and in this one) must give the same digest.
func TestC20_xproc(t *testing.T) {
	st := evid.New("C20", "xproc", "rapid: the C20 generator; each case is executed once in this process and once in each of two freshly started child processes (own hash seeds, own address space); the digests over all observable outputs must be equal; non-trivial as in the in-process check")
	defer st.Write()
	dir := t.TempDir()
	n := 0
	rapid.Check(t, func(rt *rapid.T) {
		c := genC20(rt)
		if DangerousRange(c.Argv) {
			return
		}
		here := digestOf(observeC20(c))
		n++
		file := fmt.Sprintf("%s/case-%d.json", dir, n)
		b, _ := json.Marshal(c)
		if err := os.WriteFile(file, b, 0o644); err != nil {
			rt.Fatalf("write: %v", err)
		}
		defer os.Remove(file)
		st.Eval()
		if st.NT(string(c.CompLine) + "|" + KindSig(c.Kinds)) {
			st.Sample(map[string]interface{}{"argv": c.Argv, "comp_line": c.CompLine})
		}
		for k := 0; k < 2; k++ {
			so, se, code, err := runChild("digest", file, map[string]string{"COMP_LINE": "", "ZSHELL": ""})
			if err != nil || code != 0 {
				rt.Fatalf("child did not run: %v code=%d stderr=%s", err, code, se)
			}
			if strings.TrimSpace(so) != here {
				msg := fmt.Sprintf("process %d produced observable outputs with digest %s, this process %s: same definition and input, different result across processes", k+1, strings.TrimSpace(so), here)
				path := evid.SaveFail("C20", "repeat", c, msg)
				rt.Fatalf("C20/xproc violated: %s\ncase file: %s", msg, path)
			}
		}
	})
}
