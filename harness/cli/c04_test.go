package cli

import (
	"fmt"
	"strings"
	"testing"

	"pgregory.net/rapid"

	"verif/harness/evid"
)

// C04 - `--` ends option parsing; everything after it is returned untouched.
// Oracle (metamorphic, two runs of the real code on fresh definitions):
// Parse(pre ++ ["--"] ++ tail) must behave exactly like Parse(pre) with tail
// appended verbatim to remaining - same success, same option state, same
// warnings, same dispatched function.

type C04Case struct {
	Spec  *ProgSpec `json:"spec"`
	Pre   Toks      `json:"pre"`
	Tail  Toks      `json:"tail"`
	Ctx   string    `json:"ctx"` // what stands right before the terminator
	Kinds []string  `json:"kinds,omitempty"`
}

func genC04(t *rapid.T) C04Case {
	cfg := DefaultCfg()
	cfg.Required = false
	spec := GenProg(t, cfg)
	ac := safeArgvCfg()
	if spec.UnknownMode != UnkFail {
		ac.Unknown = 2
	}
	a := NewArgvGen(t, spec, ac)
	n := rapid.IntRange(0, 4).Draw(t, "npre")
	for i := 0; i < n; i++ {
		a.Step()
	}
	c := C04Case{Spec: spec}
	lv := a.Cur()
	// dangerous context right before the terminator
	ctxs := []string{"any", "optional-novalue", "greedy-capacity", "command", "positional", "satisfied", "mandatory-takes-terminator"}
	c.Ctx = rapid.SampledFrom(ctxs).Draw(t, "ctx")
	pickKind := func(pred func(k Kind) bool) (string, *OptSpec) {
		var keys []string
		for _, k := range lv.VisibleKeys() {
			if pred(lv.Visible[k].Spec.Kind) && k != "-" {
				keys = append(keys, k)
			}
		}
		if len(keys) == 0 {
			return "", nil
		}
		k := rapid.SampledFrom(keys).Draw(t, "ctxkey")
		return k, lv.Visible[k].Spec
	}
	switch c.Ctx {
	case "optional-novalue":
		if k, _ := pickKind(func(k Kind) bool { return k.IsOptional() }); k != "" {
			a.Push("ctx:optional", "--"+k)
		} else {
			c.Ctx = "any"
		}
	case "greedy-capacity":
		if k, o := pickKind(func(k Kind) bool { return k.IsMulti() }); k != "" && o.Max > o.Min {
			toks := []string{"--" + k}
			have := rapid.IntRange(o.Min, o.Max-1).Draw(t, "have")
			for i := 0; i < have; i++ {
				toks = append(toks, genValue(t, o.Kind.Elem(), false, "gv"))
			}
			ok := true
			for _, v := range toks[1:] {
				if v == "" || strings.HasPrefix(v, "-") {
					ok = false
				}
			}
			if ok {
				a.Push("ctx:greedy", toks...)
			} else {
				c.Ctx = "any"
			}
		} else {
			c.Ctx = "any"
		}
	case "command":
		if cs := a.cmdsHere(); len(cs) > 0 {
			name := rapid.SampledFrom(cs).Draw(t, "ctxcmd")
			a.Push("command", name)
			a.cur = lv.Children[name]
		} else {
			c.Ctx = "any"
		}
	case "positional":
		a.Push("positional", sampled(t, "ctxword", []string{"foo", "bar", "1", "k=v", ""}))
	case "mandatory-takes-terminator":
		// the statement's exception: a `--` standing where a mandatory value is missing IS that value; the next `--` terminates
		if k, _ := pickKind(func(k Kind) bool { return k == KString || k == KStringSlice }); k != "" && len(lv.Visible[k].Spec.Valid) == 0 {
			a.Push("ctx:mandatory-term", "--"+k, "--")
		} else {
			c.Ctx = "any"
		}
	case "satisfied":
		if k, o := pickKind(func(k Kind) bool { return k.IsMandatoryScalar() }); k != "" {
			v := genValue(t, o.Kind.Elem(), false, "sv")
			if len(o.Valid) > 0 {
				v = o.Valid[0]
			}
			if v != "" && !strings.HasPrefix(v, "-") {
				a.Push("ctx:satisfied", "--"+k, v)
			} else {
				c.Ctx = "any"
			}
		} else {
			c.Ctx = "any"
		}
	}
	c.Pre = a.Argv
	c.Kinds = a.Kinds
	nt := rapid.IntRange(0, 5).Draw(t, "ntail")
	tail := []string{}
	for i := 0; i < nt; i++ {
		tail = append(tail, a.tailTok())
	}
	c.Tail = tail
	return c
}

func optsDiff(a, b map[string]OptObs) string {
	for k, va := range a {
		vb, ok := b[k]
		if !ok {
			return fmt.Sprintf("key %q missing", k)
		}
		if va != vb {
			return fmt.Sprintf("%s: %+v vs %+v", strings.ReplaceAll(k, "\x1f", ":"), va, vb)
		}
	}
	for k := range b {
		if _, ok := a[k]; !ok {
			return fmt.Sprintf("key %q extra", k)
		}
	}
	return ""
}

func checkC04(c C04Case, st *evid.Stats) error {
	full := append(append(append([]string{}, c.Pre...), "--"), c.Tail...)
	if DangerousRange(full) {
		st.Exclude("int range beyond bound")
		return nil
	}
	// filter: the statement excepts a `--` taken as a still-missing mandatory value
	m := Model(c.Spec, c.Pre)
	if m.Unspecified != "" {
		st.Exclude("unspecified pre: " + m.Unspecified)
		return nil
	}
	if m.Fail && contains(m.Causes, "missing-arg") {
		st.Exclude("pre ends in (or contains) an option still missing its mandatory value")
		return nil
	}
	mf := Model(c.Spec, full)
	if mf.Unspecified != "" {
		st.Exclude("unspecified full: " + mf.Unspecified)
		return nil
	}
	A := Run(c.Spec, c.Pre, RunOpts{Dispatch: true})
	B := Run(c.Spec, full, RunOpts{Dispatch: true})
	st.Eval()
	st.Class("ctx:" + c.Ctx)
	st.Class("mode:" + modeNames[c.Spec.Mode] + "/" + unkNames[c.Spec.UnknownMode])
	if A.Panic != "" || B.Panic != "" {
		return failf("panic: %s %s", A.Panic, B.Panic)
	}
	// did the parser reach the terminator, or did a require-order stop come first?
	reached := len(mf.LevelAt) > len(c.Pre) && mf.LevelAt[len(c.Pre)] != ""
	effect := false
	lv := c.Spec.Levels()
	for _, tk := range c.Tail {
		if TokClass(tk) == "opt" || tk == "--" {
			effect = true
		}
		for _, l := range lv.AllLevels() {
			if _, ok := l.Children[tk]; ok {
				effect = true
			}
		}
	}
	if effect && c.Ctx != "any" && c.Ctx != "positional" {
		if st.NT(c.Ctx + "|" + KindSig(c.Kinds) + "|" + fmt.Sprint(len(c.Tail)) + modeNames[c.Spec.Mode] + unkNames[c.Spec.UnknownMode]) {
			st.Sample(map[string]interface{}{"pre": c.Pre, "tail": c.Tail, "ctx": c.Ctx, "mode": modeNames[c.Spec.Mode], "unknown": unkNames[c.Spec.UnknownMode], "require_order": c.Spec.RequireOrder, "remaining": Toks(B.Remaining)})
		}
	}
	if A.ParseFailed != B.ParseFailed {
		return failf("Parse(pre) failed=%v (%q) but Parse(pre ++ -- ++ tail) failed=%v (%q): pre=%s tail=%s %s", A.ParseFailed, A.ParseErr, B.ParseFailed, B.ParseErr, q(c.Pre), q(c.Tail), describeCase(c.Spec, full))
	}
	if A.ParseFailed {
		st.Class("both-fail")
		return nil
	}
	want := append(append([]string{}, A.Remaining...), c.Tail...)
	if !reached {
		st.Class("terminator-not-reached(require-order)")
		want = append(append(append([]string{}, A.Remaining...), "--"), c.Tail...)
	}
	if !eqStrs(B.Remaining, want) {
		return failf("remaining after terminator = %s, want %s (Parse(pre) remaining %s ++ tail %s) %s", q(B.Remaining), q(want), q(A.Remaining), q(c.Tail), describeCase(c.Spec, full))
	}
	if d := optsDiff(A.Opts, B.Opts); d != "" {
		return failf("a token after `--` changed option state: %s; pre=%s tail=%s %s", d, q(c.Pre), q(c.Tail), describeCase(c.Spec, full))
	}
	if A.Writer != B.Writer {
		return failf("tokens after `--` changed the warnings: %q vs %q; %s", A.Writer, B.Writer, describeCase(c.Spec, full))
	}
	// same user function dispatched, with the new remaining
	if len(A.Inv) != len(B.Inv) {
		return failf("Dispatch ran %d user functions without the tail but %d with it; %s", len(A.Inv), len(B.Inv), describeCase(c.Spec, full))
	}
	for i := range A.Inv {
		if A.Inv[i].Path != B.Inv[i].Path {
			return failf("a token after `--` selected another command: %s vs %s; %s", A.Inv[i].Path, B.Inv[i].Path, describeCase(c.Spec, full))
		}
		if !eqStrs(B.Inv[i].Args, B.Remaining) {
			return failf("dispatched function got args %s, want remaining %s", q(B.Inv[i].Args), q(B.Remaining))
		}
	}
	return nil
}

var propC04 = &Prop[C04Case]{ID: "C04", Sub: "terminator",
	Rule:  "rapid: random definition x pre (plan ending in a dangerous context: optional-value option without value, slice/map with capacity left, command token, positional, satisfied mandatory option, or anything) ++ `--` ++ hostile tail (known option spellings with values, command names, unknown options, further `--`, `-`); metamorphic against Parse(pre); non-trivial = context is one of the dangerous ones and the tail holds a token that would have an effect before `--`; distinct by (context, plan classes, tail length, modes)",
	Gen:   genC04,
	Check: checkC04,
}

func init() { propC04.Register() }

func TestC04_terminator(t *testing.T) { propC04.Run(t) }
