package cli

import (
	"encoding/hex"
	"encoding/json"
	"fmt"
	"os"
	"strings"
	"testing"
	"unicode/utf8"

	"pgregory.net/rapid"

	"verif/harness/evid"
)

// Toks is an argv that survives JSON byte-for-byte (invalid UTF-8 is hex-encoded).
type Toks []string

type hexTok struct {
	Hex string `json:"hex"`
}

func (t Toks) MarshalJSON() ([]byte, error) {
	out := make([]interface{}, len(t))
	for i, s := range t {
		if utf8.ValidString(s) {
			out[i] = s
		} else {
			out[i] = hexTok{hex.EncodeToString([]byte(s))}
		}
	}
	if t == nil {
		return []byte("null"), nil
	}
	return json.Marshal(out)
}

func (t *Toks) UnmarshalJSON(b []byte) error {
	var raw []json.RawMessage
	if err := json.Unmarshal(b, &raw); err != nil {
		return err
	}
	if raw == nil {
		*t = nil
		return nil
	}
	out := make([]string, len(raw))
	for i, r := range raw {
		var s string
		if err := json.Unmarshal(r, &s); err == nil {
			out[i] = s
			continue
		}
		var h hexTok
		if err := json.Unmarshal(r, &h); err != nil {
			return err
		}
		bs, err := hex.DecodeString(h.Hex)
		if err != nil {
			return err
		}
		out[i] = string(bs)
	}
	*t = out
	return nil
}

// BS is a single string that survives JSON byte-for-byte.
type BS string

func (s BS) MarshalJSON() ([]byte, error) {
	if utf8.ValidString(string(s)) {
		return json.Marshal(string(s))
	}
	return json.Marshal(hexTok{hex.EncodeToString([]byte(s))})
}

func (s *BS) UnmarshalJSON(b []byte) error {
	var str string
	if err := json.Unmarshal(b, &str); err == nil {
		*s = BS(str)
		return nil
	}
	var h hexTok
	if err := json.Unmarshal(b, &h); err != nil {
		return err
	}
	bs, err := hex.DecodeString(h.Hex)
	if err != nil {
		return err
	}
	*s = BS(bs)
	return nil
}

// Prop ties a generator and a pure check over a JSON-able case together.
type Prop[C any] struct {
	ID    string
	Sub   string
	Rule  string
	Gen   func(t *rapid.T) C
	Check func(c C, st *evid.Stats) error
}

type replayFn func(raw json.RawMessage) error

var replayRegistry = map[string]replayFn{}

// Register makes the property replayable through TestReplay.
func (p *Prop[C]) Register() {
	replayRegistry[p.ID+"/"+p.Sub] = func(raw json.RawMessage) error {
		var c C
		if err := json.Unmarshal(raw, &c); err != nil {
			return fmt.Errorf("REPLAY-DECODE: %v", err)
		}
		st := evid.New(p.ID, p.Sub, p.Rule)
		return p.safeCheck(c, st)
	}
}

func (p *Prop[C]) safeCheck(c C, st *evid.Stats) (err error) {
	defer func() {
		if r := recover(); r != nil {
			if _, ok := r.(skipCase); ok {
				err = nil
				return
			}
			err = fmt.Errorf("harness or library panic outside Run: %v", r)
		}
	}()
	err = p.Check(c, st)
	if err != nil && p.ID != "C19" && strings.HasPrefix(err.Error(), "panic") {
		// a panic prevents observing this property; whether the library may panic is C19's statement
		st.Exclude("library panicked - not judged here (C19 decides panics): " + firstLine(err.Error()))
		return nil
	}
	return err
}

func firstLine(s string) string {
	if i := strings.IndexByte(s, '\n'); i >= 0 {
		s = s[:i]
	}
	if len(s) > 120 {
		s = s[:120]
	}
	return s
}

type skipCase struct{}

// Run drives the property with rapid (case count and seed come from the -rapid.* flags).
func (p *Prop[C]) Run(t *testing.T) {
	st := evid.New(p.ID, p.Sub, p.Rule)
	defer func() {
		if err := st.Write(); err != nil {
			t.Logf("stats write: %v", err)
		}
	}()
	rapid.Check(t, func(rt *rapid.T) {
		c := p.Gen(rt)
		if err := p.safeCheck(c, st); err != nil {
			path := evid.SaveFail(p.ID, p.Sub, c, err.Error())
			rt.Fatalf("%s/%s violated: %v\ncase file: %s", p.ID, p.Sub, err, path)
		}
	})
}

// RunFuzz drives the same property through go's native fuzzer (coverage-guided generation of rapid's bitstream).
func (p *Prop[C]) RunFuzz(f *testing.F) {
	st := evid.New(p.ID, p.Sub+"-fuzz", p.Rule)
	f.Cleanup(func() { _ = st.Write() })
	// rapid decodes the fuzz input as its bitstream: seed the corpus with inputs long enough to build whole cases
	// (without them the mutator starts from inputs that run out of bits at the first draws)
	for seed := uint64(1); seed <= 12; seed++ {
		buf := make([]byte, 4096)
		x := seed * 0x9E3779B97F4A7C15
		for i := range buf {
			x ^= x << 13
			x ^= x >> 7
			x ^= x << 17
			buf[i] = byte(x >> 32)
			if seed%3 == 0 && i%5 != 0 {
				buf[i] &= 0x0f // small draws: small definitions, short command lines
			}
		}
		f.Add(buf)
	}
	f.Fuzz(rapid.MakeFuzz(func(rt *rapid.T) {
		c := p.Gen(rt)
		if err := p.safeCheck(c, st); err != nil {
			path := evid.SaveFail(p.ID, p.Sub, c, err.Error())
			rt.Fatalf("%s/%s violated: %v\ncase file: %s", p.ID, p.Sub, err, path)
		}
	}))
}

// TestReplayFile is called by TestReplay.
func replayFile(path string) (string, error) {
	b, err := os.ReadFile(path)
	if err != nil {
		return "", fmt.Errorf("REPLAY-DECODE: %v", err)
	}
	var f evid.Failure
	if err := json.Unmarshal(b, &f); err != nil {
		return "", fmt.Errorf("REPLAY-DECODE: %v", err)
	}
	fn, ok := replayRegistry[f.Property+"/"+f.Sub]
	if !ok {
		return f.Property, fmt.Errorf("REPLAY-DECODE: no property %s/%s registered", f.Property, f.Sub)
	}
	return f.Property, fn(f.Case)
}

func failf(format string, a ...interface{}) error { return fmt.Errorf(format, a...) }

func q(s []string) string {
	if s == nil {
		return "nil"
	}
	parts := make([]string, len(s))
	for i, e := range s {
		parts[i] = fmt.Sprintf("%q", e)
	}
	return "[" + strings.Join(parts, " ") + "]"
}

func eqStrs(a, b []string) bool {
	if len(a) != len(b) {
		return false
	}
	for i := range a {
		if a[i] != b[i] {
			return false
		}
	}
	return true
}

func eqInts(a, b []int) bool {
	if len(a) != len(b) {
		return false
	}
	for i := range a {
		if a[i] != b[i] {
			return false
		}
	}
	return true
}
