package cli

import (
	"regexp"
	"sort"
	"strconv"
	"strings"
	"unicode/utf8"
)

// Reference model of the documented command-line semantics. Written from the
// property statements (C01-C12) and the README mode tables, not from api.go.
// Where the statements are silent the model answers Unspecified(reason) and
// the case is not judged.

// ExpOpt is the expected observable state of one option.
type ExpOpt struct {
	Val         string // Canon
	Called      bool
	As          string
	CalledLoose bool // Called/As not fixed by the statements (invalid env text)
}

// Expected is the model's verdict for Parse (+Dispatch).
type Expected struct {
	Unspecified string
	Fail        bool     // Parse must return an error
	Causes      []string // distinct error causes found ("unknown", "required", "ambiguous", "missing-arg", "convert", "notkv")
	ErrNames    []string // when exactly one cause: texts the error must mention (first unknown name / all candidates / custom message)
	ErrIsParse  bool     // errors.Is(err, ErrorParsing) required (missing required option)
	Remaining   []string
	Final       string             // path of the selected level
	Opts        map[string]*ExpOpt // "ownerPath\x1fprimaryName"
	Warn        []string           // unknown option names that must be warned about (Warn mode)
	Unknown     []string           // unknown option names in encounter order
	UnknownTok  []int              // argv index of each unknown token
	HelpCalled  bool
	Consumed    []bool           // per argv index: wholly consumed as option / value / command name / reached terminator
	Hits        map[string][]int // "ownerPath\x1fprimaryName" -> argv indices of the tokens that addressed the option
	LevelAt     []string         // per argv index: path of the level at which the token was interpreted ("" = not reached)
	TermAsValue int              // number of `--` tokens taken as a still-missing mandatory value
	// MustRemain: argv indices of tokens that hold an unknown option although the case as a whole is unspecified
	// (value-taking letter inside a bundle); in Pass/Warn mode such a token must still be part of remaining (C03)
	NoNameToks     int // tokens such as -=v / --=v treated as text (Pass mode or require-order level)
	MustRemain     []int
	MustRemainMode int
	MustRemainName string // the first unknown letter of that token
	MustRemainRO   bool   // the level at which that token is interpreted has require-order set (it is then the stop token)
	Decisions      int    // number of greedy lookahead decisions taken (for non-triviality rules)
	Descents       int
	// Dispatch expectation (valid when !Fail)
	Disp DispExp
}

// DispExp describes what Dispatch must do.
type DispExp struct {
	Kind     string // "fn", "help", "required", "nofn-help", "nofn-error", "root-help", "helpcmd", "helpcmd-topic", "helpcmd-unknown"
	Invoke   string // path whose CommandFn must run exactly once ("" = none)
	HelpOf   string // level whose help must be printed ("" = none)
	ReqNames []string
}

type mstate struct {
	val    interface{}
	called bool
	as     string
	loose  bool
	envSet bool
}

var reClearOpt = regexp.MustCompile(`(?s)^--?[^-=][^=]*(=.*)?$`)
var reNoName = regexp.MustCompile(`(?s)^-=`)
var reRange = regexp.MustCompile(`([+-]?[0-9]+)\.\.([+-]?[0-9]+)`)

// TokClass classifies a token: "term" (--), "opt" (clearly option-looking, incl. "-"), "odd" (starts with '-' but not clearly an option), "text".
func TokClass(tok string) string {
	if tok == "--" {
		return "term"
	}
	if tok == "-" {
		return "opt"
	}
	if strings.HasPrefix(tok, "-") {
		if reClearOpt.MatchString(tok) {
			return "opt"
		}
		return "odd"
	}
	return "text"
}

// DangerousRange reports whether any token carries an int range whose span
// exceeds the bound the property set gives (10^4): such inputs are outside the
// quantified domain and would be expanded in memory.
func DangerousRange(argv []string) bool {
	for _, t := range argv {
		if !strings.Contains(t, "..") {
			continue
		}
		for _, m := range reRange.FindAllStringSubmatch(t, -1) {
			a, e1 := strconv.Atoi(m[1])
			b, e2 := strconv.Atoi(m[2])
			if e1 != nil || e2 != nil {
				return true // overflowing numerals: be conservative
			}
			if b-a > 10000 || b-a < -10000 {
				return true
			}
		}
		// overlapping possibilities like 1..2..99999999: check every ".." split point too
		idx := 0
		for {
			j := strings.Index(t[idx:], "..")
			if j < 0 {
				break
			}
			p := idx + j
			l, r := t[:p], t[p+2:]
			ls := trailingInt(l)
			rs := leadingInt(r)
			if ls != "" && rs != "" {
				a, e1 := strconv.Atoi(ls)
				b, e2 := strconv.Atoi(rs)
				if e1 != nil || e2 != nil || b-a > 10000 || b-a < -10000 {
					return true
				}
			}
			idx = p + 1
		}
	}
	return false
}

func trailingInt(s string) string {
	i := len(s)
	for i > 0 && s[i-1] >= '0' && s[i-1] <= '9' {
		i--
	}
	if i == len(s) {
		return ""
	}
	if i > 0 && (s[i-1] == '-' || s[i-1] == '+') {
		i--
	}
	return s[i:]
}

func leadingInt(s string) string {
	i := 0
	if i < len(s) && (s[i] == '-' || s[i] == '+') {
		i++
	}
	j := i
	for j < len(s) && s[j] >= '0' && s[j] <= '9' {
		j++
	}
	if j == i {
		return ""
	}
	return s[:j]
}

type pair struct {
	name     string
	attached bool
	val      string
}

// splitToken applies the documented mode table to an option-looking token.
func splitToken(tok string, mode int) (pairs []pair, unspec string) {
	if tok == "-" {
		return []pair{{name: "-"}}, ""
	}
	long := strings.HasPrefix(tok, "--")
	body := tok[1:]
	if long {
		body = tok[2:]
	}
	nameval := func(s string) (string, bool, string, string) {
		i := strings.Index(s, "=")
		if i < 0 {
			return s, false, "", ""
		}
		if i == len(s)-1 {
			return s[:i], false, "", "empty attached value"
		}
		return s[:i], true, s[i+1:], ""
	}
	if long || mode == ModeNormal {
		n, att, v, u := nameval(body)
		if u != "" {
			return nil, u
		}
		return []pair{{name: n, attached: att, val: v}}, ""
	}
	switch mode {
	case ModeBundling:
		n, att, v, u := nameval(body)
		if u != "" {
			return nil, u
		}
		if !utf8.ValidString(n) {
			return nil, "invalid UTF-8 in bundle"
		}
		for _, r := range n {
			pairs = append(pairs, pair{name: string(r)})
		}
		if att {
			pairs[len(pairs)-1].attached = true
			pairs[len(pairs)-1].val = v
		}
		return pairs, ""
	case ModeSingleDash:
		r, size := utf8.DecodeRuneInString(body)
		if r == utf8.RuneError && size <= 1 {
			return nil, "invalid UTF-8 head letter"
		}
		head, rest := body[:size], body[size:]
		if rest == "" {
			return []pair{{name: head}}, ""
		}
		return []pair{{name: head, attached: true, val: rest}}, ""
	}
	return nil, "unknown mode"
}

// resolve finds the option a written name addresses at a level: exact key
// first, then unique prefix.
func resolve(l *Level, name string) (key string, cands []string) {
	if _, ok := l.Visible[name]; ok {
		return name, nil
	}
	for k := range l.Visible {
		if strings.HasPrefix(k, name) {
			cands = append(cands, k)
		}
	}
	sort.Strings(cands)
	if len(cands) == 1 {
		return cands[0], nil
	}
	return "", cands
}

func wellFormed(elem byte, tok string) bool {
	switch elem {
	case 'i':
		_, err := strconv.Atoi(tok)
		return err == nil
	case 'f':
		_, err := strconv.ParseFloat(tok, 64)
		return err == nil
	case 'm':
		return strings.Contains(tok, "=")
	}
	return true
}

// Model computes the expected outcome of Parse(argv) (+ Dispatch) on a fresh definition of spec.
func Model(spec *ProgSpec, argv []string) *Expected {
	exp := &Expected{Opts: map[string]*ExpOpt{}, Consumed: make([]bool, len(argv)), LevelAt: make([]string, len(argv)), Remaining: []string{}, Hits: map[string][]int{}}
	root := spec.Levels()
	states := map[*OptSpec]*mstate{}
	owner := map[*OptSpec]string{}
	var helpSpec *OptSpec
	for _, lv := range root.AllLevels() {
		for _, vo := range lv.Visible {
			if _, ok := states[vo.Spec]; ok {
				continue
			}
			o := vo.Spec
			st := &mstate{}
			switch o.Kind {
			case KBool:
				st.val = o.DefBool
			case KIncrement, KInt, KIntOpt:
				st.val = o.DefInt
			case KFloat, KFloatOpt:
				st.val = o.DefFloat
			case KString, KStringOpt:
				st.val = o.DefStr
			case KStringSlice:
				st.val = []string{}
			case KIntSlice:
				st.val = []int{}
			case KFloatSlice:
				st.val = []float64{}
			case KStringMap:
				st.val = map[string]string{}
			}
			// environment, applied at definition time
			if o.Env != "" {
				if ev, ok := spec.Env[o.Env]; ok && ev != "" {
					switch {
					case o.Kind == KBool:
						lv := strings.ToLower(ev)
						if lv == "true" || lv == "false" {
							st.val = lv == "true"
							st.called, st.as, st.envSet = true, o.Env, true
						}
					case o.Kind.IsScalar():
						switch o.Kind.Elem() {
						case 's':
							st.val = ev
							st.called, st.as, st.envSet = true, o.Env, true
						case 'i':
							if n, err := strconv.Atoi(ev); err == nil {
								st.val = n
								st.called, st.as, st.envSet = true, o.Env, true
							} else {
								st.loose = true
							}
						case 'f':
							if f, err := strconv.ParseFloat(ev, 64); err == nil {
								st.val = f
								st.called, st.as, st.envSet = true, o.Env, true
							} else {
								st.loose = true
							}
						}
						if len(o.Valid) > 0 && !contains(o.Valid, ev) {
							exp.Unspecified = "env value outside ValidValues"
						}
					}
				}
			}
			if o.SetCalled {
				st.called = true
			}
			states[o] = st
			owner[o] = vo.Owner
			if vo.Help {
				helpSpec = o
			}
		}
	}
	finish := func() *Expected {
		for o, st := range states {
			exp.Opts[OKey(owner[o], o.Name)] = &ExpOpt{Val: Canon(st.val), Called: st.called, As: st.as, CalledLoose: st.loose}
		}
		return exp
	}
	if exp.Unspecified != "" {
		return finish()
	}
	addCause := func(c string) {
		if !contains(exp.Causes, c) {
			exp.Causes = append(exp.Causes, c)
		}
		exp.Fail = true
	}
	unspec := func(r string) *Expected {
		exp.Unspecified = r
		return finish()
	}

	cur := root
	rem := []string{}
	type unk struct {
		name string
		idx  int
		mode int
	}
	var unknowns []unk
	save := func(o *OptSpec, st *mstate, tok string, mandatoryPos bool) (ok bool, us string) {
		if len(o.Valid) > 0 && !contains(o.Valid, tok) {
			return false, "value outside ValidValues"
		}
		switch o.Kind {
		case KString, KStringOpt:
			st.val = tok
		case KInt, KIntOpt:
			n, err := strconv.Atoi(tok)
			if err != nil {
				return false, ""
			}
			st.val = n
		case KFloat, KFloatOpt:
			f, err := strconv.ParseFloat(tok, 64)
			if err != nil {
				return false, ""
			}
			st.val = f
		case KStringSlice:
			st.val = append(st.val.([]string), tok)
		case KIntSlice:
			if strings.Contains(tok, "..") {
				if !mandatoryPos {
					return false, "" // not well-formed in the greedy part; caller never gets here
				}
				parts := strings.SplitN(tok, "..", 2)
				a, e1 := strconv.Atoi(parts[0])
				b, e2 := strconv.Atoi(parts[1])
				if e1 != nil || e2 != nil {
					return false, ""
				}
				if a >= b {
					return false, "int range with a>=b"
				}
				if b-a > 10000 {
					return false, "int range span beyond bound"
				}
				s := st.val.([]int)
				for j := a; j <= b; j++ {
					s = append(s, j)
				}
				st.val = s
				return true, ""
			}
			n, err := strconv.Atoi(tok)
			if err != nil {
				return false, ""
			}
			st.val = append(st.val.([]int), n)
		case KFloatSlice:
			f, err := strconv.ParseFloat(tok, 64)
			if err != nil {
				return false, ""
			}
			st.val = append(st.val.([]float64), f)
		case KStringMap:
			i := strings.Index(tok, "=")
			if i < 0 {
				return false, ""
			}
			st.val.(map[string]string)[tok[:i]] = tok[i+1:]
		}
		return true, ""
	}

	i := 0
	stopped := false
LOOP:
	for i < len(argv) {
		tok := argv[i]
		exp.LevelAt[i] = cur.Path
		class := TokClass(tok)
		if class == "odd" && reNoName.MatchString(tok) && (cur.UnknownMode == UnkPass || cur.RequireOrder) {
			// one dash directly followed by `=`: no option name can be taken from the token, so it cannot be a known
			// option (`--=v` is different: the implementation reads it as the lonesome-dash option `-` with value v,
			// which no statement covers - it stays unspecified). Whether it counts as an unknown option or as an argument, in Pass mode it stays in remaining
			// and at a require-order level it is the stop token: for conservation it behaves like text there.
			// (Fail / Warn mode: error or warning is not fixed by any statement - still unspecified.)
			class = "text"
			exp.NoNameToks++
		}
		switch class {
		case "term":
			exp.Consumed[i] = true
			rem = append(rem, argv[i+1:]...)
			stopped = true
			break LOOP
		case "odd":
			return unspec("odd dash token " + strconv.Quote(tok))
		case "opt":
			pairs, us := splitToken(tok, spec.Mode)
			if us != "" {
				return unspec(us)
			}
			tokUnknown := false
			tokKnown := false
			for pi, p := range pairs {
				if !utf8.ValidString(p.name) {
					return unspec("invalid UTF-8 in option name")
				}
				key, cands := resolve(cur, p.name)
				if key == "" && len(cands) >= 2 {
					if cur.RequireOrder {
						return unspec("ambiguous prefix with require-order")
					}
					addCause("ambiguous")
					exp.ErrNames = cands
					// parsing stops at the first hard error
					exp.Remaining = nil
					return finishFail(exp, finish)
				}
				if key == "" {
					if cur.RequireOrder {
						if pi > 0 && tokKnown {
							return unspec("require-order stop inside a bundle")
						}
						rem = append(rem, argv[i:]...)
						stopped = true
						break LOOP
					}
					unknowns = append(unknowns, unk{p.name, i, cur.UnknownMode})
					if !tokUnknown && cur.UnknownMode != UnkFail {
						rem = append(rem, tok)
					}
					tokUnknown = true
					if p.attached && pi != len(pairs)-1 {
						return unspec("internal: attached value not on last pair")
					}
					continue
				}
				tokKnown = true
				vo := cur.Visible[key]
				o := vo.Spec
				st := states[o]
				if pi != len(pairs)-1 && !o.Kind.IsFlag() {
					for _, later := range pairs[pi+1:] {
						if k2, c2 := resolve(cur, later.name); k2 == "" && len(c2) == 0 && utf8.ValidString(later.name) {
							exp.MustRemain = append(exp.MustRemain, i)
							exp.MustRemainMode = cur.UnknownMode
							exp.MustRemainName = later.name
							exp.MustRemainRO = cur.RequireOrder
							break
						}
					}
					return unspec("value-taking letter inside a bundle")
				}
				st.called, st.as = true, key
				exp.Hits[OKey(vo.Owner, o.Name)] = append(exp.Hits[OKey(vo.Owner, o.Name)], i)
				switch {
				case o.Kind.IsFlag():
					if p.attached {
						return unspec("attached value on a flag option")
					}
					if o.Kind == KBool {
						st.val = !o.DefBool
					} else {
						st.val = st.val.(int) + 1
					}
				case o.Kind.IsMandatoryScalar():
					v := p.val
					if !p.attached {
						if i+1 >= len(argv) {
							addCause("missing-arg")
							return finishFail(exp, finish)
						}
						switch TokClass(argv[i+1]) {
						case "term":
							// C04: a `--` standing where a mandatory value is still missing is taken as that value
							exp.TermAsValue++
						case "odd":
							return unspec("odd dash token in value position")
						case "opt":
							addCause("missing-arg")
							return finishFail(exp, finish)
						}
						i++
						exp.Consumed[i] = true
						exp.LevelAt[i] = cur.Path
						v = argv[i]
					}
					ok, us := save(o, st, v, true)
					if us != "" {
						return unspec(us)
					}
					if !ok {
						addCause("convert")
						return finishFail(exp, finish)
					}
				case o.Kind.IsOptional():
					if p.attached {
						ok, us := save(o, st, p.val, true)
						if us != "" {
							return unspec(us)
						}
						if !ok {
							addCause("convert")
							return finishFail(exp, finish)
						}
						break
					}
					if i+1 < len(argv) {
						c := TokClass(argv[i+1])
						if c == "odd" {
							return unspec("odd dash token in value position")
						}
						if c == "text" {
							exp.Decisions++
							i++
							exp.Consumed[i] = true
							ok, us := save(o, st, argv[i], true)
							if us != "" {
								return unspec(us)
							}
							if !ok {
								addCause("convert")
								return finishFail(exp, finish)
							}
							break
						}
						exp.Decisions++
					}
					if st.envSet {
						return unspec("optional-value option without value while env value present")
					}
				case o.Kind.IsMulti():
					count := 0
					if p.attached {
						ok, us := save(o, st, p.val, true)
						if us != "" {
							return unspec(us)
						}
						if !ok {
							if o.Kind == KStringMap {
								addCause("notkv")
							} else {
								addCause("convert")
							}
							return finishFail(exp, finish)
						}
						count = 1
					}
					for count < o.Min {
						if i+1 >= len(argv) {
							addCause("missing-arg")
							return finishFail(exp, finish)
						}
						switch TokClass(argv[i+1]) {
						case "term":
							exp.TermAsValue++
						case "odd":
							return unspec("odd dash token in value position")
						case "opt":
							addCause("missing-arg")
							return finishFail(exp, finish)
						}
						i++
						exp.Consumed[i] = true
						exp.LevelAt[i] = cur.Path
						ok, us := save(o, st, argv[i], true)
						if us != "" {
							return unspec(us)
						}
						if !ok {
							if o.Kind == KStringMap {
								addCause("notkv")
							} else {
								addCause("convert")
							}
							return finishFail(exp, finish)
						}
						count++
					}
					for count < o.Max {
						if i+1 >= len(argv) {
							break
						}
						exp.Decisions++
						c := TokClass(argv[i+1])
						if c == "odd" {
							return unspec("odd dash token in value position")
						}
						if c != "text" {
							break
						}
						if !wellFormed(o.Kind.Elem(), argv[i+1]) {
							break
						}
						i++
						exp.Consumed[i] = true
						ok, us := save(o, st, argv[i], false)
						if us != "" {
							return unspec(us)
						}
						if !ok {
							return unspec("internal: well-formed element failed to save")
						}
						count++
					}
				}
			}
			if !tokUnknown {
				exp.Consumed[i] = true
			}
			i++
		default: // text
			if ch, ok := cur.Children[tok]; ok {
				exp.Consumed[i] = true
				cur = ch
				exp.Descents++
				i++
				continue
			}
			if cur.RequireOrder {
				rem = append(rem, argv[i:]...)
				stopped = true
				break LOOP
			}
			rem = append(rem, tok)
			i++
		}
	}
	_ = stopped
	exp.Final = cur.Path
	exp.Remaining = rem
	for _, u := range unknowns {
		exp.Unknown = append(exp.Unknown, u.name)
		exp.UnknownTok = append(exp.UnknownTok, u.idx)
		if u.mode != cur.UnknownMode {
			return unspec("unknown option at a level whose unknown-mode differs from the selected level's")
		}
	}
	if helpSpec != nil && states[helpSpec].called {
		exp.HelpCalled = true
	}
	// required options: checked by Parse only when the root is the selected level
	missing := func(l *Level) (names []string) {
		for _, vo := range l.VisibleOpts() {
			if vo.Spec.Required && !states[vo.Spec].called {
				if states[vo.Spec].loose {
					names = append(names, "\x00loose")
				}
				if vo.Spec.RequiredMsg != "" {
					names = append(names, vo.Spec.RequiredMsg)
				} else {
					names = append(names, vo.Spec.Name)
				}
			}
		}
		return
	}
	if cur.Parent == nil && !exp.HelpCalled {
		if m := missing(cur); len(m) > 0 {
			if contains(m, "\x00loose") {
				return unspec("required option with invalid env text")
			}
			addCause("required")
			exp.ErrIsParse = true
			exp.ErrNames = m
		}
	}
	if len(unknowns) > 0 {
		switch cur.UnknownMode {
		case UnkFail:
			addCause("unknown")
			if len(exp.Causes) == 1 {
				exp.ErrNames = []string{unknowns[0].name}
			}
		case UnkWarn:
			exp.Warn = exp.Unknown
		}
	}
	if exp.Fail {
		return finishFail(exp, finish)
	}
	// Dispatch
	switch {
	case exp.HelpCalled:
		exp.Disp = DispExp{Kind: "help", HelpOf: cur.Path}
	case len(missing(cur)) > 0:
		m := missing(cur)
		if contains(m, "\x00loose") {
			return unspec("required option with invalid env text")
		}
		exp.Disp = DispExp{Kind: "required", ReqNames: m}
	case cur.IsHelpCmd:
		switch {
		case len(rem) == 0:
			exp.Disp = DispExp{Kind: "helpcmd", HelpOf: cur.Parent.Path}
		default:
			if sib, ok := cur.Parent.Children[rem[0]]; ok {
				exp.Disp = DispExp{Kind: "helpcmd-topic", HelpOf: sib.Path}
			} else {
				exp.Disp = DispExp{Kind: "helpcmd-unknown"}
			}
		}
	case !cur.Spec.NoFn:
		exp.Disp = DispExp{Kind: "fn", Invoke: cur.Path}
	case cur.Parent != nil:
		if len(cur.Children) > 1 {
			exp.Disp = DispExp{Kind: "nofn-help", HelpOf: cur.Path}
		} else {
			exp.Disp = DispExp{Kind: "nofn-error"}
		}
	default:
		exp.Disp = DispExp{Kind: "root-help", HelpOf: cur.Path}
	}
	return finish()
}

func finishFail(exp *Expected, finish func() *Expected) *Expected {
	exp.Fail = true
	exp.Remaining = nil
	return finish()
}

func contains(ss []string, s string) bool {
	for _, e := range ss {
		if e == s {
			return true
		}
	}
	return false
}
