package cli

import (
	"fmt"
	"strconv"
	"strings"
	"testing"

	"pgregory.net/rapid"

	"verif/harness/evid"
)

// C12 - value precedence: command line over environment variable over default.
// Oracle: three-way table computed independently (strconv as conversion spec).

type C12Case struct {
	Kind    Kind    `json:"kind"`
	DefBool bool    `json:"def_bool,omitempty"`
	DefInt  int     `json:"def_int,omitempty"`
	DefF    float64 `json:"def_float,omitempty"`
	DefStr  string  `json:"def_str,omitempty"`
	EnvSet  bool    `json:"env_set"`
	EnvText BS      `json:"env_text"`
	CLI     string  `json:"cli"` // absent | attached | detached | alias | flag
	CLIText BS      `json:"cli_text,omitempty"`
	InCmd   bool    `json:"in_cmd,omitempty"` // option given after a command token (inherited option)
	UseVar  bool    `json:"use_var,omitempty"`
	Mode    int     `json:"mode"`
	Sibling bool    `json:"sibling,omitempty"`
	// Owner: "" = declared on the program; "cmd" = declared on the command itself; "wrapper" = declared on a
	// command that unset the inherited options (the option is then given after the command token)
	Owner string `json:"owner,omitempty"`
}

const c12Env = "VERIF_C12_VAR"

var c12Kinds = []Kind{KBool, KString, KInt, KFloat, KStringOpt, KIntOpt, KFloatOpt}

func (c *C12Case) spec() *ProgSpec {
	o := OptSpec{Kind: c.Kind, Name: "opt", Aliases: []string{"alt"}, DefBool: c.DefBool, DefInt: c.DefInt, DefFloat: c.DefF, DefStr: c.DefStr, Env: c12Env, UseVar: c.UseVar}
	p := &ProgSpec{Mode: c.Mode, Root: CmdSpec{Name: "prog", Opts: []OptSpec{o}}, Env: map[string]string{}}
	if c.Sibling {
		p.Root.Opts = append(p.Root.Opts, OptSpec{Kind: KString, Name: "other", DefStr: "o", Env: "VERIF_C12_OTHER"})
		p.Env["VERIF_C12_OTHER"] = "sib"
	}
	// further program-level commands whose names are also plausible option values
	p.Root.Cmds = []CmdSpec{{Name: "cmd"}, {Name: "list"}, {Name: "run"}}
	if c.Owner != "" {
		p.Root.Opts = p.Root.Opts[1:]
		p.Root.Cmds[0].Opts = []OptSpec{o}
		p.Root.Cmds[0].Unset = c.Owner == "wrapper"
	}
	if c.EnvSet {
		p.Env[c12Env] = string(c.EnvText)
	}
	return p
}

func validFor(k Kind, text string) (canon string, ok bool) {
	switch k.Elem() {
	case 'b':
		l := strings.ToLower(text)
		if l == "true" || l == "false" {
			return Canon(l == "true"), true
		}
		return "", false
	case 's':
		return Canon(text), true
	case 'i':
		n, err := strconv.Atoi(text)
		return Canon(n), err == nil
	case 'f':
		f, err := strconv.ParseFloat(text, 64)
		return Canon(f), err == nil
	}
	return "", false
}

func c12TextPool(k Kind, valid bool) []string {
	switch k.Elem() {
	case 'b':
		if valid {
			return []string{"true", "false", "TRUE", "False", "tRuE", "FALSE"}
		}
		return []string{"yes", "1", "0", "t", "f", " true", "true ", "truee", "on", "no"}
	case 'i':
		if valid {
			return intValid
		}
		return nonEmpty(intInvalid)
	case 'f':
		if valid {
			return floatValid
		}
		return nonEmpty(floatInvalid)
	}
	return nonEmpty(strValPool)
}

func nonEmpty(in []string) []string {
	var out []string
	for _, s := range in {
		if s != "" && !strings.Contains(s, "\x00") {
			out = append(out, s)
		}
	}
	return out
}

func genC12(t *rapid.T) C12Case {
	c := C12Case{Kind: rapid.SampledFrom(c12Kinds).Draw(t, "kind")}
	c.Mode = rapid.IntRange(0, 2).Draw(t, "mode")
	c.UseVar = rapid.Bool().Draw(t, "usevar")
	c.Sibling = rapid.Bool().Draw(t, "sibling")
	c.DefBool = rapid.Bool().Draw(t, "defb")
	c.DefInt = rapid.SampledFrom([]int{0, 7, -1, 42}).Draw(t, "defi")
	c.DefF = rapid.SampledFrom([]float64{0, 1.5, -2.25}).Draw(t, "deff")
	c.DefStr = rapid.SampledFrom([]string{"", "def", "foo"}).Draw(t, "defs")
	envClass := rapid.SampledFrom([]string{"unset", "empty", "valid", "valid", "equal-default", "invalid", "random"}).Draw(t, "envclass")
	switch envClass {
	case "unset":
	case "empty":
		c.EnvSet = true
	case "valid":
		c.EnvSet = true
		c.EnvText = BS(rapid.SampledFrom(c12TextPool(c.Kind, true)).Draw(t, "envv"))
	case "equal-default":
		c.EnvSet = true
		switch c.Kind.Elem() {
		case 'b':
			c.EnvText = BS(strconv.FormatBool(c.DefBool))
		case 'i':
			c.EnvText = BS(strconv.Itoa(c.DefInt))
		case 'f':
			c.EnvText = BS(strconv.FormatFloat(c.DefF, 'g', -1, 64))
		default:
			c.EnvText = BS(c.DefStr)
		}
	case "invalid":
		c.EnvSet = true
		c.EnvText = BS(rapid.SampledFrom(c12TextPool(c.Kind, false)).Draw(t, "envbad"))
	case "random":
		c.EnvSet = true
		b := rapid.SliceOfN(rapid.ByteRange(1, 255), 0, 10).Draw(t, "envbytes")
		c.EnvText = BS(b)
	}
	clis := []string{"absent", "absent", "attached", "detached", "alias"}
	if c.Kind == KBool {
		clis = []string{"absent", "absent", "flag", "alias"}
	}
	c.CLI = rapid.SampledFrom(clis).Draw(t, "cli")
	if c.CLI != "absent" && c.CLI != "flag" && c.Kind != KBool {
		for try := 0; try < 20; try++ {
			v := rapid.SampledFrom(c12TextPool(c.Kind, true)).Draw(t, "cliv")
			if c.CLI == "attached" || !strings.HasPrefix(v, "-") {
				c.CLIText = BS(v)
				break
			}
		}
		if c.CLIText == "" {
			c.CLIText = "5"
		}
	}
	if (c.Kind == KString || c.Kind == KStringOpt) && rapid.IntRange(0, 7).Draw(t, "cliempty") == 0 {
		// an empty command-line argument is a value too (prog --opt "$UNSET"): it can only be written as a separate argument
		c.CLI, c.CLIText = "detached-empty", ""
	}
	c.InCmd = rapid.IntRange(0, 3).Draw(t, "incmd") == 0
	switch rapid.IntRange(0, 7).Draw(t, "owner") {
	case 0:
		c.Owner, c.InCmd = "cmd", true
	case 1:
		c.Owner, c.InCmd = "wrapper", true
	}
	return c
}

func checkC12(c C12Case, st *evid.Stats) error {
	spec := c.spec()
	var argv []string
	if c.InCmd {
		argv = append(argv, "cmd")
	}
	key := "opt"
	switch c.CLI {
	case "attached":
		argv = append(argv, "--opt="+string(c.CLIText))
	case "detached":
		argv = append(argv, "--opt", string(c.CLIText))
	case "detached-empty":
		argv = append(argv, "--opt", "")
	case "alias":
		key = "alt"
		if c.Kind == KBool {
			argv = append(argv, "--alt")
		} else {
			argv = append(argv, "--alt="+string(c.CLIText))
		}
	case "flag":
		argv = append(argv, "--opt")
	}
	var o *OptSpec
	if c.Owner != "" {
		o = &spec.Root.Cmds[0].Opts[0]
	} else {
		o = &spec.Root.Opts[0]
	}
	envText := string(c.EnvText)
	envCanon, envValid := validFor(c.Kind, envText)
	envApplies := c.EnvSet && envText != "" && envValid
	// independent precedence table
	wantVal, wantCalled, wantAs := o.DefaultCanon(), false, ""
	checkCalled := true
	switch {
	case c.CLI != "absent":
		wantCalled, wantAs = true, key
		if c.Kind == KBool {
			wantVal = Canon(!c.DefBool)
		} else {
			cv, ok := validFor(c.Kind, string(c.CLIText))
			if !ok {
				st.Exclude("harness drew an invalid CLI text")
				return nil
			}
			wantVal = cv
		}
	case envApplies:
		wantVal, wantCalled, wantAs = envCanon, true, c12Env
	case c.EnvSet && envText != "" && !envValid:
		checkCalled = false // the statement does not fix Called for invalid environment text
	}
	out := Run(spec, argv, RunOpts{})
	st.Eval()
	if out.Panic != "" {
		return failf("panic: %s", out.Panic)
	}
	envClass := "unset"
	switch {
	case !c.EnvSet:
	case envText == "":
		envClass = "empty"
	case !envValid:
		envClass = "invalid"
	case envCanon == o.DefaultCanon():
		envClass = "valid=default"
	default:
		envClass = "valid"
	}
	st.Class(fmt.Sprintf("%s|env:%s|cli:%s", c.Kind, envClass, c.CLI))
	if c.EnvSet && envText != "" {
		eq := ""
		if c.CLI != "absent" && wantVal == envCanon {
			eq = "cli=env"
		}
		if st.NT(fmt.Sprintf("%v|%s|%s|%q|%q|%v%v%v%q%s|%v%s", c.Kind, envClass, c.CLI, envText, c.CLIText, c.DefBool, c.DefInt, c.DefF, c.DefStr, eq, c.InCmd, c.Owner)) {
			st.Sample(map[string]interface{}{"kind": c.Kind.String(), "default": o.DefaultCanon(), "env_text": c.EnvText, "argv": Toks(argv), "expect": wantVal, "expect_called_as": wantAs})
		}
	}
	ctx := fmt.Sprintf("%s default=%s env(set=%v)=%q argv=%s", c.Kind, o.DefaultCanon(), c.EnvSet, envText, q(argv))
	if out.ParseFailed {
		return failf("Parse failed: %s; %s", out.ParseErr, ctx)
	}
	paths := []string{"prog"}
	if c.InCmd {
		paths = append(paths, "prog/cmd")
	}
	if c.Owner != "" {
		paths = []string{"prog/cmd"}
		st.Class("declared-on:" + c.Owner)
	}
	for _, p := range paths {
		for _, k := range []string{"opt", "alt"} {
			g := out.Opts[OKey(p, k)]
			if g.Val != wantVal {
				return failf("option reads %s (via %q at %s), want %s by precedence CLI > env > default; %s", g.Val, k, p, wantVal, ctx)
			}
			if g.Ptr != "" && g.Ptr != wantVal {
				return failf("pointer/Var target reads %s, want %s; %s", g.Ptr, wantVal, ctx)
			}
			if checkCalled {
				if g.Called != wantCalled {
					return failf("Called(%q) = %v, want %v; %s", k, g.Called, wantCalled, ctx)
				}
				if g.As != wantAs {
					return failf("CalledAs(%q) = %q, want %q; %s", k, g.As, wantAs, ctx)
				}
			}
		}
	}
	if c.Sibling {
		g := out.Opts[OKey("prog", "other")]
		if g.Val != Canon("sib") || !g.Called || g.As != "VERIF_C12_OTHER" {
			return failf("sibling option bound to another variable reads %+v; %s", g, ctx)
		}
	}
	return nil
}

var propC12 = &Prop[C12Case]{ID: "C12", Sub: "precedence",
	Rule:  "rapid: kind in {Bool,String,Int,Float64 + optional forms} x default x environment text class {unset, empty, valid, valid equal to default, invalid, random bytes} x CLI {absent, --n=v, --n v, alias, flag} x {declared on the program and given at the root / after a command token, declared on a command, declared on a wrapper command that unset the inherited options} x Var/pointer x mode; the program has further commands whose names are also drawn as option values; three-way precedence table computed by the harness; non-trivial = variable set and non-empty; distinct by (kind, env class, CLI form, texts, default, level)",
	Gen:   genC12,
	Check: checkC12,
}

func init() { propC12.Register() }

func TestC12_precedence(t *testing.T) { propC12.Run(t) }

// TestC12_exhaustive enumerates the class product with every text of the pools.
func TestC12_exhaustive(t *testing.T) {
	st := evid.New("C12", "exhaustive", "exhaustive enumeration: 7 kinds x 2 defaults x every environment text in the valid/invalid pools (+unset, +empty) x CLI forms {absent, attached, detached/flag, alias} x {root, in command}; non-trivial = variable set and non-empty")
	st.Exhaustive = true
	defer st.Write()
	for _, k := range c12Kinds {
		envs := []struct {
			set bool
			txt string
		}{{false, ""}, {true, ""}}
		for _, v := range c12TextPool(k, true) {
			envs = append(envs, struct {
				set bool
				txt string
			}{true, v})
		}
		for _, v := range c12TextPool(k, false) {
			envs = append(envs, struct {
				set bool
				txt string
			}{true, v})
		}
		clis := []string{"absent", "attached", "detached", "alias"}
		if k == KBool {
			clis = []string{"absent", "flag", "alias"}
		}
		for di := 0; di < 2; di++ {
			for _, e := range envs {
				for _, cli := range clis {
					for _, inCmd := range []bool{false, true} {
						c := C12Case{Kind: k, EnvSet: e.set, EnvText: BS(e.txt), CLI: cli, InCmd: inCmd, UseVar: di == 1}
						if di == 1 {
							c.DefBool, c.DefInt, c.DefF, c.DefStr = true, 7, 1.5, "def"
						}
						if cli != "absent" && cli != "flag" && k != KBool {
							c.CLIText = BS(c12TextPool(k, true)[1])
						}
						if err := propC12.safeCheck(c, st); err != nil {
							path := evid.SaveFail("C12", "exhaustive", c, err.Error())
							t.Fatalf("C12/exhaustive violated: %v\ncase file: %s", err, path)
						}
					}
				}
			}
		}
	}
}

func init() {
	(&Prop[C12Case]{ID: "C12", Sub: "exhaustive", Rule: "replay", Check: checkC12}).Register()
}
