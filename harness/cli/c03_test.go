package cli

import (
	"strings"
	"testing"

	"pgregory.net/rapid"

	"verif/harness/evid"
)

// C03 - conservation of the remaining arguments.
// Oracle: (1) model-free: remaining is a position-wise subsequence of argv
// (nothing invented, altered, reordered or duplicated); (2) exact equality with
// the reference model's list of tokens that were not wholly consumed.

type ArgvCase struct {
	Spec  *ProgSpec `json:"spec"`
	Argv  Toks      `json:"argv"`
	Kinds []string  `json:"kinds,omitempty"`
}

func genC03(t *rapid.T) ArgvCase {
	cfg := DefaultCfg()
	cfg.SingleLetters = rapid.IntRange(0, 1).Draw(t, "sl")
	cfg.MixedUnknown = rapid.Bool().Draw(t, "mixedunk")
	spec := GenProg(t, cfg)
	ac := DefaultArgvCfg()
	ac.MaxItems = 9
	ac.Unknown = 3
	if spec.UnknownMode == UnkFail {
		ac.Unknown = 1
	}
	ac.BadValues = 25
	ac.MissingVals = 30
	argv, kinds := GenArgv(t, spec, ac)
	return ArgvCase{Spec: spec, Argv: argv, Kinds: kinds}
}

func kindClasses(kinds []string) map[string]bool {
	m := map[string]bool{}
	for _, k := range kinds {
		if i := strings.Index(k, ":"); i >= 0 {
			m[k[:i]] = true
		} else {
			m[k] = true
		}
	}
	return m
}

func checkC03(c ArgvCase, st *evid.Stats) error {
	if DangerousRange(c.Argv) {
		st.Exclude("int range beyond bound")
		return nil
	}
	m := Model(c.Spec, c.Argv)
	if m.Unspecified != "" {
		// the values are unspecified, conservation is not: a token holding an unknown option stays in remaining (Pass/Warn)
		if len(m.MustRemain) > 0 && (m.MustRemainMode != UnkFail || m.MustRemainRO) {
			out := Run(c.Spec, c.Argv, RunOpts{})
			if out.Panic == "" && !out.ParseFailed {
				st.Class("unknown-letter-after-a-value-taking-letter-in-one-bundle")
				if m.MustRemainRO {
					st.Class("unknown-letter-after-a-value-taking-letter-in-one-bundle:require-order-level")
				}
				for _, ix := range m.MustRemain {
					found := false
					for _, r := range out.Remaining {
						if r == c.Argv[ix] {
							found = true
						}
					}
					if !found {
						return failf("%s mode (require-order at that level: %v): token %q holds an unknown option but is missing from remaining %s (argv %s)", unkNames[m.MustRemainMode], m.MustRemainRO, c.Argv[ix], q(out.Remaining), q(c.Argv))
					}
				}
				if !isSubsequence(out.Remaining, c.Argv) {
					return failf("remaining %s is not a subsequence of argv %s", q(out.Remaining), q(c.Argv))
				}
			}
		}
		st.Exclude("unspecified: " + m.Unspecified)
		return nil
	}
	out := Run(c.Spec, c.Argv, RunOpts{})
	st.Eval()
	if out.Panic != "" {
		return failf("panic: %s", out.Panic)
	}
	st.Class("mode:" + modeNames[c.Spec.Mode] + "/" + unkNames[c.Spec.UnknownMode])
	if out.ParseFailed {
		st.Class("parse:failed")
		if !m.Fail {
			st.Exclude("real Parse failed where the model succeeds (judged by C01/C02/C05/C08, not by conservation)")
		}
		return nil
	}
	st.Class("parse:ok")
	if !isSubsequence(out.Remaining, c.Argv) {
		return failf("remaining %s is not a subsequence of argv %s: a token was invented, altered, reordered or duplicated", q(out.Remaining), q(c.Argv))
	}
	kc := kindClasses(c.Kinds)
	if len(kc) >= 2 && len(out.Remaining) > 0 {
		if st.NT(KindSig(c.Kinds) + "|" + modeNames[c.Spec.Mode] + unkNames[c.Spec.UnknownMode]) {
			st.Sample(map[string]interface{}{"argv": c.Argv, "mode": modeNames[c.Spec.Mode], "unknown": unkNames[c.Spec.UnknownMode], "require_order": c.Spec.RequireOrder, "remaining": Toks(out.Remaining), "plan": c.Kinds})
		}
	}
	for k := range kc {
		st.Class("has:" + k)
	}
	if m.Descents > 0 {
		st.Class("has:descent")
	}
	if m.Fail {
		if len(m.Causes) == 1 && m.Causes[0] == "unknown" {
			// Parse succeeded although the statements ask for an unknown-option error (C08's business). Conservation
			// still applies to a successful Parse: a token that was not consumed as a known option, value or command
			// name must be in remaining - compare with the consumption of the same command line in Pass mode.
			ps := *c.Spec
			ps.UnknownMode = UnkPass
			ps.UnknownLate = 0
			ps.Root = stripUnknownOverrides(c.Spec.Root)
			if mp := Model(&ps, c.Argv); mp.Unspecified == "" && !mp.Fail {
				st.Class("succeeded-despite-unknown-option-in-fail-mode")
				if !eqStrs(out.Remaining, mp.Remaining) {
					return failf("Parse succeeded and returned remaining = %s, but the tokens not consumed as known options, values or command names are %s (an unknown option token was dropped silently) for %s", q(out.Remaining), q(mp.Remaining), describeCase(c.Spec, c.Argv))
				}
				return nil
			}
		}
		st.Exclude("model expects an error (judged by other properties); only the model-free invariant was checked")
		return nil
	}
	if !eqStrs(out.Remaining, m.Remaining) {
		return failf("remaining = %s, want %s (tokens not wholly consumed as known options, values or command names) for %s", q(out.Remaining), q(m.Remaining), describeCase(c.Spec, c.Argv))
	}
	return nil
}

var propC03 = &Prop[ArgvCase]{ID: "C03", Sub: "conserve",
	Rule:  "rapid: random definition (12 kinds, command trees, wrappers, help, 3 modes x 3 unknown modes x require-order) x argv plan over all token kinds (positionals incl. empty strings and command-name look-alikes, known options with attached/detached/missing/malformed values, abbreviations, bundles, unknown options, --, hostile tokens); non-trivial = plan has >=2 token classes and remaining is non-empty; distinct by plan class sequence + modes",
	Gen:   genC03,
	Check: checkC03,
}

func init() { propC03.Register() }

func TestC03_conserve(t *testing.T) { propC03.Run(t) }

func FuzzC03_conserve(f *testing.F) { propC03.RunFuzz(f) }

func stripUnknownOverrides(c CmdSpec) CmdSpec {
	c.UnknownMode = 0
	cmds := make([]CmdSpec, len(c.Cmds))
	for i := range c.Cmds {
		cmds[i] = stripUnknownOverrides(c.Cmds[i])
	}
	c.Cmds = cmds
	return c
}
