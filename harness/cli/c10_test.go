package cli

import (
	"fmt"
	"testing"

	"pgregory.net/rapid"

	"verif/harness/evid"
)

// C10 - Dispatch runs exactly the addressed command once, with its options and arguments.
// Oracle: reference model for the addressed command path (descend only where a
// positional could stand) + instrumented CommandFns recording every invocation.

func genC10(t *rapid.T) ArgvCase {
	cfg := DefaultCfg()
	cfg.MaxDepth = 3
	cfg.MaxCmds = 3
	cfg.MinCmds = 1
	cfg.MaxOpts = 3
	cfg.Help = 1
	// required options exist in a third of the definitions: whether one is missing is decided for the
	// addressed command's own view (a wrapper that unset the inherited options does not answer for its ancestors')
	cfg.Required = rapid.IntRange(0, 2).Draw(t, "withrequired") == 0
	spec := GenProg(t, cfg)
	ac := DefaultArgvCfg()
	ac.MaxItems = 9
	ac.Commands = 6
	ac.Positional = 5
	ac.Unknown = 0
	if spec.UnknownMode != UnkFail {
		ac.Unknown = 2
	}
	ac.BadValues = 0
	ac.MissingVals = 0
	ac.Hostile = 0
	ac.Term = 1
	argv, kinds := GenArgv(t, spec, ac)
	return ArgvCase{Spec: spec, Argv: argv, Kinds: kinds}
}

func checkC10(c ArgvCase, st *evid.Stats) error {
	if DangerousRange(c.Argv) {
		st.Exclude("int range beyond bound")
		return nil
	}
	m := Model(c.Spec, c.Argv)
	if m.Unspecified != "" {
		st.Exclude("unspecified: " + m.Unspecified)
		return nil
	}
	if m.Fail {
		st.Exclude("Parse fails per the model (statement is conditional on a successful Parse)")
		return nil
	}
	out := Run(c.Spec, c.Argv, RunOpts{Dispatch: true})
	if out.Panic != "" {
		return failf("panic: %s", out.Panic)
	}
	if out.ParseFailed {
		st.Exclude("real Parse failed (judged by other properties)")
		return nil
	}
	st.Eval()
	st.Class("dispatch:" + m.Disp.Kind)
	lv := c.Spec.Levels()
	depth := 0
	for l := lv.Find(m.Final); l != nil && l.Parent != nil; l = l.Parent {
		depth++
	}
	st.Class(fmt.Sprintf("depth:%d", depth))
	// command-name tokens in a non-command role
	nonCmdRole := 0
	names := map[string]bool{}
	for _, l := range lv.AllLevels() {
		for n := range l.Children {
			names[n] = true
		}
	}
	cmdToks := 0
	for _, tk := range c.Argv {
		if names[tk] {
			cmdToks++
		}
	}
	nonCmdRole = cmdToks - m.Descents
	if nonCmdRole > 0 {
		st.Class("command-name-in-non-command-role")
	}
	if depth >= 2 || nonCmdRole > 0 {
		if st.NT(KindSig(c.Kinds) + "|" + m.Final + "|" + fmt.Sprint(nonCmdRole) + modeNames[c.Spec.Mode]) {
			st.Sample(map[string]interface{}{"argv": c.Argv, "addressed": m.Final, "dispatch": m.Disp.Kind, "remaining": Toks(m.Remaining), "command_name_tokens_not_selecting": nonCmdRole, "mode": modeNames[c.Spec.Mode], "require_order": c.Spec.RequireOrder})
		}
	}
	ctx := describeCase(c.Spec, c.Argv)
	if m.Disp.Invoke == "" {
		if len(out.Inv) != 0 {
			return failf("no user function should run (%s at %s) but Dispatch invoked %d: %s; %s", m.Disp.Kind, m.Final, len(out.Inv), out.Inv[0].Path, ctx)
		}
		switch m.Disp.Kind {
		case "nofn-help", "nofn-error", "root-help":
			if !out.DispFailed && out.DispWriter == "" {
				return failf("addressed command %s has no function: Dispatch must return an error or print help, it did neither; %s", m.Final, ctx)
			}
		}
		return nil
	}
	if len(out.Inv) != 1 {
		paths := []string{}
		for _, iv := range out.Inv {
			paths = append(paths, iv.Path)
		}
		return failf("Dispatch invoked %d user functions %v, want exactly one: %s; dispatch error %q; %s", len(out.Inv), paths, m.Disp.Invoke, out.DispErr, ctx)
	}
	iv := out.Inv[0]
	if iv.Path != m.Disp.Invoke {
		return failf("Dispatch ran the function of %s, addressed command is %s; %s", iv.Path, m.Disp.Invoke, ctx)
	}
	if !iv.CtxOK {
		return failf("CommandFn did not receive the caller's context")
	}
	if !eqStrs(iv.Args, out.Remaining) {
		return failf("CommandFn args %s differ from Parse's remaining %s; %s", q(iv.Args), q(out.Remaining), ctx)
	}
	if !eqStrs(out.Remaining, m.Remaining) {
		return failf("remaining %s, want %s; %s", q(out.Remaining), q(m.Remaining), ctx)
	}
	if out.DispFailed {
		return failf("Dispatch returned %q although the function returned nil", out.DispErr)
	}
	l := lv.Find(m.Final)
	for _, k := range l.VisibleKeys() {
		vo := l.Visible[k]
		e := m.Opts[OKey(vo.Owner, vo.Spec.Name)]
		g, ok := iv.Seen[k]
		if !ok {
			return failf("harness: key %q not observed inside the function", k)
		}
		if g.Val != e.Val {
			return failf("inside %s's function option %q (via %q, defined at %s) reads %s, want %s; %s", iv.Path, vo.Spec.Name, k, vo.Owner, g.Val, e.Val, ctx)
		}
		if !e.CalledLoose && g.Called != e.Called {
			return failf("inside %s's function Called(%q) = %v, want %v; %s", iv.Path, k, g.Called, e.Called, ctx)
		}
	}
	return nil
}

var propC10 = &Prop[ArgvCase]{ID: "C10", Sub: "dispatch",
	Rule:  "rapid: command trees (depth<=3, fan-out<=3, options at every level, UnsetOptions wrappers, commands without CommandFn, optional help) x argv with options before/after command tokens, command names as positionals/option values/after `--`/after the require-order stop, repeated names; Parse+Dispatch with instrumented CommandFns; non-trivial = addressed depth >=2 or a command-name token that does not select a command; distinct by (plan classes, addressed path, non-command-role count, mode)",
	Gen:   genC10,
	Check: checkC10,
}

func init() { propC10.Register() }

func TestC10_dispatch(t *testing.T) { propC10.Run(t) }
