package cli

import (
	"fmt"
	"sort"
	"strconv"
	"strings"
	"testing"

	"github.com/DavidGamba/go-getoptions/text"
	"pgregory.net/rapid"

	"verif/harness/evid"
)

// C18 - generated help lists every option, alias, argument and command exactly once.
// Oracle: a structural reader of the help text (sections by the exported header
// variables) compared with the definition; three access paths compared byte for byte.

type C18Case struct {
	Spec *ProgSpec `json:"spec"`
}

func genC18(t *rapid.T) C18Case {
	cfg := DefaultCfg()
	cfg.Required = true
	cfg.Env = true
	cfg.Descriptions = true
	cfg.Help = 2
	cfg.NoDashName = false
	cfg.MaxOpts = 4
	cfg.MaxDepth = 2
	cfg.RequireOrder = 0
	spec := GenProg(t, cfg)
	// every kind at least once: add one option of each kind to the root with fresh names
	used := allKeys(spec)
	fresh := func(base string) string {
		for i := 0; ; i++ {
			n := base
			if i > 0 {
				n = base + strconv.Itoa(i)
			}
			if !used[n] {
				used[n] = true
				return n
			}
		}
	}
	for k := KBool; k < NumKinds; k++ {
		o := OptSpec{Kind: k, Name: fresh("k" + strings.ToLower(k.String()))}
		if rapid.Bool().Draw(t, "kalias") {
			o.Aliases = []string{fresh("A" + strconv.Itoa(int(k)))}
			if rapid.Bool().Draw(t, "kalias2") {
				o.Aliases = append(o.Aliases, fresh(string(rune('B'+int(k)))))
				o.AliasSplit = rapid.Bool().Draw(t, "kaliassplit")
			}
		}
		o.UseVar = rapid.Bool().Draw(t, "kusevar")
		o.Required = rapid.IntRange(0, 2).Draw(t, "kreq") == 0
		if o.Required && rapid.Bool().Draw(t, "kreqmsg") {
			o.RequiredMsg = "need " + o.Name
		}
		if rapid.IntRange(0, 2).Draw(t, "kenv") == 0 {
			o.Env = "VERIF_HELP_" + strings.ToUpper(o.Name)
		}
		if rapid.Bool().Draw(t, "kdesc") {
			o.Desc = rapid.SampledFrom([]string{"Explains the thing", "First line\nsecond line", "(parenthesised) text"}).Draw(t, "kdesctext")
		}
		if rapid.IntRange(0, 3).Draw(t, "kargname") == 0 && !k.IsFlag() {
			o.ArgName = "thing"
		}
		if k.Elem() == 's' {
			// modifiers that restrict / suggest values: they must not cost the option any of the listed facts
			switch rapid.IntRange(0, 3).Draw(t, "kvalues") {
			case 0:
				o.Valid = []string{"dev", "prod", "dflt"}
			case 1:
				o.Suggested = []string{"alpha", "beta"}
			}
		}
		switch k {
		case KBool:
			o.DefBool = rapid.Bool().Draw(t, "kdb")
		case KIncrement, KInt, KIntOpt:
			o.DefInt = rapid.SampledFrom([]int{0, 3, -7}).Draw(t, "kdi")
		case KFloat, KFloatOpt:
			o.DefFloat = rapid.SampledFrom([]float64{0, 1.5, -2.25}).Draw(t, "kdf")
		case KString, KStringOpt:
			o.DefStr = rapid.SampledFrom([]string{"", "dflt", "two words"}).Draw(t, "kds")
		default:
			o.Min = rapid.IntRange(1, 2).Draw(t, "kmin")
			o.Max = o.Min + rapid.IntRange(0, 2).Draw(t, "kmaxd")
		}
		spec.Root.Opts = append(spec.Root.Opts, o)
	}
	if rapid.Bool().Draw(t, "synargs") {
		pool := [][2]string{{"<file>", "File to read"}, {"[<more>...]", ""}, {"<target>", "Where to put it"}, {"<n>", ""}}
		n := rapid.IntRange(1, 3).Draw(t, "nsynargs")
		spec.Root.SynArgs = rapid.Permutation(pool).Draw(t, "synargorder")[:n]
	}
	return C18Case{Spec: spec}
}

type helpEntry struct {
	Head    string
	Aliases []string
	Text    string // whole entry text
}

type parsedHelp struct {
	Sections map[string]string
	Order    []string
}

func parseHelp(txt string) *parsedHelp {
	headers := map[string]bool{text.HelpNameHeader: true, text.HelpSynopsisHeader: true, text.HelpCommandsHeader: true, text.HelpRequiredOptionsHeader: true, text.HelpArgumentsHeader: true, text.HelpOptionsHeader: true}
	ph := &parsedHelp{Sections: map[string]string{}}
	cur := ""
	for _, line := range strings.SplitAfter(txt, "\n") {
		trim := strings.TrimSuffix(line, "\n")
		if strings.HasSuffix(trim, ":") && headers[strings.TrimSuffix(trim, ":")] && !strings.HasPrefix(trim, " ") {
			cur = strings.TrimSuffix(trim, ":")
			ph.Order = append(ph.Order, cur)
			continue
		}
		if cur != "" {
			ph.Sections[cur] += line
		}
	}
	return ph
}

// entries splits an option/command list section into entries: a head line carries the smallest
// indentation found in the section (continuation lines of descriptions are indented deeper).
func entries(section string) []helpEntry {
	var out []helpEntry
	ind := -1
	for _, line := range strings.Split(section, "\n") {
		if strings.TrimSpace(line) == "" {
			continue
		}
		n := len(line) - len(strings.TrimLeft(line, " "))
		if n == 0 {
			continue // trailing free text after the last section ("Use '... help <command>' ...")
		}
		if ind < 0 || n < ind {
			ind = n
		}
	}
	if ind < 0 {
		return nil
	}
	pre := strings.Repeat(" ", ind)
	for _, line := range strings.Split(section, "\n") {
		if strings.HasPrefix(line, pre) && len(line) > ind && line[ind] != ' ' {
			head := strings.Fields(line[ind:])[0]
			out = append(out, helpEntry{Head: head, Text: line + "\n"})
			continue
		}
		if len(out) > 0 {
			out[len(out)-1].Text += line + "\n"
		}
	}
	return out
}

func stripDashes(e string) string {
	switch {
	case e == "-":
		return "-"
	case strings.HasPrefix(e, "--"):
		return e[2:]
	case strings.HasPrefix(e, "-"):
		return e[1:]
	}
	return e
}

func aliasString(o *OptSpec) string {
	var parts []string
	for _, e := range o.Keys() {
		switch {
		case e == "-":
			parts = append(parts, "-")
		case len(e) > 1:
			parts = append(parts, "--"+e)
		default:
			parts = append(parts, "-"+e)
		}
	}
	return strings.Join(parts, "|")
}

func defaultRenderings(o *OptSpec) []string {
	switch o.Kind {
	case KBool:
		return []string{strconv.FormatBool(o.DefBool)}
	case KIncrement, KInt, KIntOpt:
		return []string{strconv.Itoa(o.DefInt)}
	case KFloat, KFloatOpt:
		return []string{fmt.Sprintf("%f", o.DefFloat), fmt.Sprintf("%g", o.DefFloat), fmt.Sprintf("%v", o.DefFloat)}
	case KString, KStringOpt:
		return []string{strconv.Quote(o.DefStr), o.DefStr, "'" + o.DefStr + "'"}
	case KStringMap:
		return []string{"{}", "map[]"}
	}
	return []string{"[]"}
}

// mentions finds the delimited occurrences of the alias string in the synopsis; returns the char before each.
func mentions(syn, alias string) []byte {
	var prevs []byte
	idx := 0
	for {
		j := strings.Index(syn[idx:], alias)
		if j < 0 {
			break
		}
		p := idx + j
		end := p + len(alias)
		var prev, next byte = ' ', ' '
		if p > 0 {
			prev = syn[p-1]
		}
		if end < len(syn) {
			next = syn[end]
		}
		if strings.IndexByte(" [<\n", prev) >= 0 && strings.IndexByte(" ]>\n", next) >= 0 {
			prevs = append(prevs, prev)
		}
		idx = p + 1
	}
	return prevs
}

func checkHelpText(spec *ProgSpec, l *Level, txt string) error {
	ph := parseHelp(txt)
	syn := ph.Sections[text.HelpSynopsisHeader]
	if syn == "" {
		return failf("help of %s has no %s section", l.Path, text.HelpSynopsisHeader)
	}
	var all []helpEntry
	req := entries(ph.Sections[text.HelpRequiredOptionsHeader])
	opt := entries(ph.Sections[text.HelpOptionsHeader])
	inReq := map[string]bool{}
	for i := range req {
		inReq[req[i].Head] = true
	}
	all = append(append(all, req...), opt...)
	byAliasSet := map[string][]helpEntry{}
	for _, e := range all {
		var names []string
		for _, a := range strings.Split(e.Head, "|") {
			names = append(names, stripDashes(a))
		}
		sort.Strings(names)
		byAliasSet[strings.Join(names, "\x00")] = append(byAliasSet[strings.Join(names, "\x00")], e)
	}
	vis := l.VisibleOpts()
	for _, vo := range vis {
		o := vo.Spec
		keys := sortedCopy(o.Keys())
		es := byAliasSet[strings.Join(keys, "\x00")]
		if len(es) != 1 {
			return failf("help of %s: option %q (%s, aliases %v) appears %d times in the option lists with exactly its alias list, want once", l.Path, o.Name, o.Kind, o.Aliases, len(es))
		}
		e := es[0]
		if inReq[e.Head] != o.Required {
			return failf("help of %s: option %q required=%v but listed under required parameters=%v", l.Path, o.Name, o.Required, inReq[e.Head])
		}
		if !o.Required {
			ok := false
			for _, r := range defaultRenderings(o) {
				if strings.Contains(e.Text, "default: "+r) {
					ok = true
				}
			}
			if !ok {
				return failf("help of %s: entry of non-required option %q (%s) does not show its default (one of %q): %q", l.Path, o.Name, o.Kind, defaultRenderings(o), e.Text)
			}
		}
		if o.Env != "" && !strings.Contains(e.Text, "env: "+o.Env) {
			return failf("help of %s: entry of option %q does not show its environment variable %s: %q", l.Path, o.Name, o.Env, e.Text)
		}
		for _, dl := range strings.Split(o.Desc, "\n") {
			if dl != "" && !strings.Contains(e.Text, dl) {
				return failf("help of %s: entry of option %q lacks description line %q: %q", l.Path, o.Name, dl, e.Text)
			}
		}
		prevs := mentions(syn, aliasString(o))
		if len(prevs) == 0 {
			return failf("help of %s: synopsis does not mention option %q (%s, required=%v) as %q:\n%s", l.Path, o.Name, o.Kind, o.Required, aliasString(o), syn)
		}
		if o.Required {
			for _, p := range prevs {
				if p == '[' {
					return failf("help of %s: required option %q is bracketed in the synopsis:\n%s", l.Path, o.Name, syn)
				}
			}
		}
	}
	if len(all) != len(vis) {
		heads := []string{}
		for _, e := range all {
			heads = append(heads, e.Head)
		}
		return failf("help of %s lists %d option entries %v for %d options (an alias listed separately, or an option listed twice / missing)", l.Path, len(all), heads, len(vis))
	}
	// commands
	cmds := entries(ph.Sections[text.HelpCommandsHeader])
	want := map[string]*Level{}
	for n, ch := range l.Children {
		if !ch.IsHelpCmd {
			want[n] = ch
		}
	}
	seen := map[string]int{}
	for _, e := range cmds {
		seen[e.Head]++
	}
	for n, ch := range want {
		if seen[n] != 1 {
			return failf("help of %s: subcommand %q listed %d times under %s, want once", l.Path, n, seen[n], text.HelpCommandsHeader)
		}
		for _, e := range cmds {
			if e.Head == n {
				for _, dl := range strings.Split(ch.Spec.Desc, "\n") {
					if dl != "" && !strings.Contains(e.Text, dl) {
						return failf("help of %s: subcommand %q entry lacks description line %q: %q", l.Path, n, dl, e.Text)
					}
				}
			}
		}
	}
	for n := range seen {
		if _, ok := want[n]; !ok {
			return failf("help of %s: %s lists %q which is not a subcommand (or is the help command)", l.Path, text.HelpCommandsHeader, n)
		}
	}
	for _, sa := range l.Spec.SynArgs {
		if sa[0] != "" && !strings.Contains(syn, sa[0]) {
			return failf("help of %s: synopsis does not mention declared argument %q", l.Path, sa[0])
		}
		if sa[1] != "" {
			// a described argument is listed (once) with its description
			n := 0
			for _, e := range entries(ph.Sections[text.HelpArgumentsHeader]) {
				if e.Head == strings.Fields(sa[0])[0] && strings.Contains(e.Text, sa[1]) {
					n++
				}
			}
			if n != 1 {
				return failf("help of %s: declared argument %q with description %q is listed %d times under %s, want once:\n%s", l.Path, sa[0], sa[1], n, text.HelpArgumentsHeader, ph.Sections[text.HelpArgumentsHeader])
			}
		}
	}
	return nil
}

func checkC18(c C18Case, st *evid.Stats) error {
	root := c.Spec.Levels()
	for _, l := range root.AllLevels() {
		if l.IsHelpCmd {
			continue
		}
		txt, pan := HelpAt(c.Spec, l.Path)
		if pan != "" {
			return failf("panic in Help() at %s: %s", l.Path, pan)
		}
		st.Eval()
		kinds := map[Kind]int{}
		inherited, multiAlias := 0, 0
		for _, vo := range l.VisibleOpts() {
			kinds[vo.Spec.Kind]++
			if vo.Owner != l.Path {
				inherited++
			}
			if len(vo.Spec.Aliases) >= 2 {
				multiAlias++
			}
			st.Class("kind:" + vo.Spec.Kind.String())
		}
		rare := kinds[KIncrement] + kinds[KStringOpt] + kinds[KIntOpt] + kinds[KFloatOpt] + kinds[KFloatSlice]
		if rare > 0 || inherited > 0 || multiAlias > 0 {
			sig := []string{}
			for _, vo := range l.VisibleOpts() {
				sig = append(sig, fmt.Sprintf("%d%v%v%d", vo.Spec.Kind, vo.Spec.Required, vo.Spec.Env != "", len(vo.Spec.Aliases)))
			}
			if st.NT(strings.Join(sig, ",") + "|" + fmt.Sprint(len(l.Children))) {
				st.Sample(map[string]interface{}{"level": l.Path, "help_text": txt})
			}
		}
		if err := checkHelpText(c.Spec, l, txt); err != nil {
			return err
		}
		// three access paths
		path := strings.Split(l.Path, "/")[1:]
		if v, ok := l.Visible[c.Spec.Help]; ok && v.Help {
			out := Run(c.Spec, append(append([]string{}, path...), "--"+c.Spec.Help), RunOpts{Dispatch: true})
			if out.Panic != "" {
				return failf("panic: %s", out.Panic)
			}
			if out.ParseFailed || !out.DispIsHelp {
				return failf("help option at %s: parse error %q dispatch error %q", l.Path, out.ParseErr, out.DispErr)
			}
			if out.DispWriter != txt {
				return failf("help of %s through the help option differs from Help():\n%q\nvs\n%q", l.Path, out.DispWriter, txt)
			}
			// the same with other options set on that command line: declared defaults, not current values
			var setters []string
			for _, vo := range l.VisibleOpts() {
				o := vo.Spec
				if vo.Help || o.Kind.IsFlag() || len(o.Valid) > 0 || len(setters) >= 4 {
					continue
				}
				v := map[byte]string{'s': "v1", 'i': "41", 'f': "4.5", 'm': "kk=vv"}[o.Kind.Elem()]
				setters = append(setters, "--"+o.Name+"="+v)
				for j := 1; j < o.Min; j++ {
					setters = append(setters, v)
				}
			}
			if len(setters) > 0 {
				argv := append(append(append([]string{}, path...), setters...), "--"+c.Spec.Help)
				out := Run(c.Spec, argv, RunOpts{Dispatch: true})
				if out.Panic != "" {
					return failf("panic: %s", out.Panic)
				}
				if !out.ParseFailed && out.DispIsHelp && out.DispWriter != txt {
					return failf("help of %s requested on a command line that also sets options (%s) differs from Help() (defaults must be the declared ones):\n%q\nvs\n%q", l.Path, q(argv), out.DispWriter, txt)
				}
			}
		}
		out := Run(c.Spec, append(append([]string{}, path...), c.Spec.Help), RunOpts{Dispatch: true})
		if out.Panic != "" {
			return failf("panic: %s", out.Panic)
		}
		if out.ParseFailed || !out.DispIsHelp {
			return failf("help command at %s: parse error %q dispatch error %q", l.Path, out.ParseErr, out.DispErr)
		}
		if out.DispWriter != txt {
			return failf("help of %s through the help command differs from Help():\n%q\nvs\n%q", l.Path, out.DispWriter, txt)
		}
		if l.Parent != nil {
			pp := strings.Split(l.Parent.Path, "/")[1:]
			out := Run(c.Spec, append(append(append([]string{}, pp...), c.Spec.Help), l.Spec.Name), RunOpts{Dispatch: true})
			if out.ParseFailed || !out.DispIsHelp {
				return failf("help <topic> for %s: parse error %q dispatch error %q", l.Path, out.ParseErr, out.DispErr)
			}
			if out.DispWriter != txt {
				return failf("help of %s through 'help %s' differs from Help():\n%q\nvs\n%q", l.Path, l.Spec.Name, out.DispWriter, txt)
			}
		}
	}
	return nil
}

var propC18 = &Prop[C18Case]{ID: "C18", Sub: "help",
	Rule:  "rapid: command trees where the root declares every one of the 12 option kinds (random aliases, required+message, env binding, single/multi-line descriptions, arg names, defaults, ValidValues / SuggestedValues on string kinds) plus random options/commands below, HelpSynopsisArg declarations; evaluations = command levels whose help text was read structurally and compared across Help(), help option, help command and help <topic>; non-trivial = level has an option of a kind the golden tests never render (Increment, optional kinds, Float64Slice) or an inherited option or >=2 aliases; distinct by multiset of (kind, required, env, alias count) + number of children",
	Gen:   genC18,
	Check: checkC18,
}

func init() { propC18.Register() }

func TestC18_help(t *testing.T) { propC18.Run(t) }
