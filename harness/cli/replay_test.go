package cli

import (
	"fmt"
	"os"
	"strings"
	"testing"
)

// TestReplay re-executes saved cases (VERIF_REPLAY: newline separated paths) through the plain checks, bypassing rapid.
func TestReplay(t *testing.T) {
	list := os.Getenv("VERIF_REPLAY")
	if list == "" {
		t.Skip("VERIF_REPLAY not set")
	}
	for _, path := range strings.Split(list, "\n") {
		if path == "" {
			continue
		}
		id, err := replayFile(path)
		switch {
		case err == nil:
			fmt.Printf("REPLAY-PASS property=%s file=%s\n", id, path)
		case strings.HasPrefix(err.Error(), "REPLAY-DECODE"):
			fmt.Printf("REPLAY-INFRA property=%s file=%s\n%v\n", id, path, err)
		default:
			fmt.Printf("REPLAY-FAIL property=%s file=%s\n%v\n", id, path, err)
		}
	}
}
