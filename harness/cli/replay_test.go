package cli

import (
	"fmt"
	"os"
	"strings"
	"testing"
)

// TestReplay re-executes one saved case (VERIF_REPLAY) through the plain check, bypassing rapid.
func TestReplay(t *testing.T) {
	path := os.Getenv("VERIF_REPLAY")
	if path == "" {
		t.Skip("VERIF_REPLAY not set")
	}
	id, err := replayFile(path)
	switch {
	case err == nil:
		fmt.Printf("REPLAY-PASS property=%s file=%s\n", id, path)
	case strings.HasPrefix(err.Error(), "REPLAY-DECODE"):
		fmt.Printf("REPLAY-INFRA %v\n", err)
		t.Fatalf("infra: %v", err)
	default:
		fmt.Printf("REPLAY-FAIL property=%s file=%s\n%v\n", id, path, err)
		t.Fail()
	}
}
