package cli

import (
	"fmt"
	"sort"
	"strconv"
	"strings"
	"testing"

	"pgregory.net/rapid"

	"verif/harness/evid"
)

// C17 - completion offers exactly the applicable commands, options and values.
// Oracle: candidate set computed independently from the spec and the level the
// earlier words lead to (reference-model walk), compared as sets with what the
// library prints; offered items are cross-checked against the real parser.

type C17Case struct {
	Spec    *ProgSpec `json:"spec"`
	Earlier []string  `json:"earlier"` // words between the program name and the last word
	Last    string    `json:"last"`    // partial last word ("" = cursor after a space)
	Zsh     bool      `json:"zsh"`
	Class   string    `json:"class"`
	// Seps: the blanks written in front of each word after the program name (earlier words, then the last
	// word); missing = one blank. COMP_LINE is the text the user typed: runs of blanks and tabs separate words.
	Seps []string `json:"seps,omitempty"`
	// OpenEnd: len(Earlier) right after an option was written that can still take the next word as a value
	// (a multi-valued option below its maximum, an optional-value option without value). When it equals
	// len(Earlier) the last word stands in a value position: the statement fixes no candidate set there, only
	// that whatever is offered is accepted by the parser at that position.
	OpenEnd  int    `json:"open_end,omitempty"`
	OpenElem string `json:"open_elem,omitempty"` // element type of that option: s i f m
}

var c17Values = []string{"dev", "development", "prod", "production", "staging", "debug", "info", "infinity", "error", "a=b", "x", "tok="}

func genC17(t *rapid.T) C17Case {
	cfg := DefaultCfg()
	cfg.RequireOrder = 0 // with require-order the program name itself is the stop token: outside the statement
	cfg.CmdRO = true     // a wrapper command with require-order completes its own level until its stop token
	cfg.Help = 1
	cfg.MinCmds = 1
	cfg.MaxOpts = 5
	cfg.MinOpts = 1
	cfg.Valid = false
	cfg.NoFn = true
	spec := GenProg(t, cfg)
	// decorate: suggested / valid / dynamic values, argument suggestions
	decorate := func(c *CmdSpec) {
		for i := range c.Opts {
			o := &c.Opts[i]
			if o.Kind.Elem() == 's' && rapid.IntRange(0, 1).Draw(t, "hasvals") == 0 {
				n := rapid.IntRange(1, 4).Draw(t, "nvals")
				start := rapid.IntRange(0, len(c17Values)-n).Draw(t, "valstart")
				vals := c17Values[start : start+n]
				switch rapid.IntRange(0, 2).Draw(t, "valkind") {
				case 0:
					o.Valid = vals
				case 1:
					o.Suggested = vals
				case 2:
					o.DynValues = vals
				}
			}
		}
		if rapid.IntRange(0, 2).Draw(t, "argsugg") == 0 {
			c.ArgSugg = []string{"alpha", "alphabet", "beta", "list-item", "x1"}[:rapid.IntRange(1, 5).Draw(t, "nargsugg")]
		}
		if rapid.IntRange(0, 3).Draw(t, "argdyn") == 0 {
			c.ArgDyn = []string{"dynamic", "dyn2", "alpha-dyn"}
		}
	}
	var rec func(c *CmdSpec)
	rec = func(c *CmdSpec) {
		decorate(c)
		for i := range c.Cmds {
			rec(&c.Cmds[i])
		}
	}
	rec(&spec.Root)
	c := C17Case{Spec: spec, Zsh: rapid.Bool().Draw(t, "zsh"), Earlier: []string{}}
	lv := spec.Levels()
	n := rapid.IntRange(0, 4).Draw(t, "nearlier")
	for i := 0; i < n; i++ {
		switch rapid.IntRange(0, 3).Draw(t, "ek") {
		case 0, 1:
			if len(lv.ChildSeq) > 0 {
				name := rapid.SampledFrom(lv.ChildSeq).Draw(t, "ecmd")
				c.Earlier = append(c.Earlier, name)
				lv = lv.Children[name]
			}
		case 2:
			keys := lv.VisibleKeys()
			if len(keys) == 0 {
				break
			}
			k := rapid.SampledFrom(keys).Draw(t, "ekey")
			o := lv.Visible[k].Spec
			if k == "-" {
				break
			}
			switch {
			case o.Kind.IsFlag():
				c.Earlier = append(c.Earlier, "--"+k)
			case o.Kind.IsScalar() || (o.Kind.IsMulti() && o.Max == 1):
				v := map[byte]string{'s': "word", 'i': "7", 'f': "1.5", 'm': "k=v"}[o.Kind.Elem()]
				if len(o.Valid) > 0 {
					v = o.Valid[0]
				}
				if o.Kind.IsOptional() && rapid.IntRange(0, 3).Draw(t, "eoptnovalue") == 0 {
					c.Earlier = append(c.Earlier, "--"+k) // the next word may be its value
					c.OpenEnd, c.OpenElem = len(c.Earlier), string(o.Kind.Elem())
				} else if o.Kind.IsScalar() && !o.Kind.IsOptional() && rapid.IntRange(0, 2).Draw(t, "edetached") == 0 {
					c.Earlier = append(c.Earlier, "--"+k, v) // value as the next word
				} else {
					c.Earlier = append(c.Earlier, "--"+k+"="+v)
				}
			case o.Kind.IsMulti() && o.Max > 1:
				// the mandatory values are given, room for more is left
				v := map[byte]string{'s': "word", 'i': "7", 'f': "1.5", 'm': "k=v"}[o.Kind.Elem()]
				c.Earlier = append(c.Earlier, "--"+k)
				for j := 0; j < o.Min; j++ {
					c.Earlier = append(c.Earlier, v)
				}
				if o.Min < o.Max {
					c.OpenEnd, c.OpenElem = len(c.Earlier), string(o.Kind.Elem())
				}
			}
		case 3:
			w := rapid.SampledFrom([]string{"foo", "bar", "file.txt"}).Draw(t, "eword")
			if _, isCmd := lv.Children[w]; !isCmd {
				c.Earlier = append(c.Earlier, w)
			}
		}
	}
	if rapid.IntRange(0, 3).Draw(t, "blanks") == 0 {
		for i := 0; i <= len(c.Earlier); i++ {
			c.Seps = append(c.Seps, rapid.SampledFrom([]string{" ", " ", "  ", "   ", "\t", " \t "}).Draw(t, "sep"))
		}
	}
	// last word
	c.Class = rapid.SampledFrom([]string{"empty", "cmd-prefix", "dash", "dashdash", "opt-prefix", "opt-prefix", "opt-eq", "opt-eq-prefix", "word", "single-dash-prefix"}).Draw(t, "lastclass")
	keys := lv.VisibleKeys()
	cut := func(s, label string) string {
		i := rapid.IntRange(0, len(s)).Draw(t, label)
		for !isRuneBoundary(s, i) {
			i--
		}
		return s[:i]
	}
	if c.OpenEnd > 0 && c.OpenEnd == len(c.Earlier) && len(lv.ChildSeq) > 0 && rapid.IntRange(0, 3).Draw(t, "valuepos") > 0 {
		// the last word stands where the option before it can still take a value: type the start of a command name
		c.Class = "value-position"
		name := rapid.SampledFrom(lv.ChildSeq).Draw(t, "vpcmd")
		c.Last = cut(name, "vpcut")
		if c.Last == "" {
			c.Last = name
		}
	}
	switch c.Class {
	case "empty":
		c.Last = ""
	case "cmd-prefix":
		pool := append(append([]string{}, lv.ChildSeq...), lv.Spec.ArgSugg...)
		if len(pool) == 0 {
			c.Class, c.Last = "word", "x"
		} else {
			c.Last = cut(rapid.SampledFrom(pool).Draw(t, "lcmd"), "lcut")
		}
	case "dash":
		c.Last = "-"
	case "dashdash":
		c.Last = "--"
	case "opt-prefix", "single-dash-prefix":
		if len(keys) == 0 {
			c.Class, c.Last = "dashdash", "--"
			break
		}
		k := rapid.SampledFrom(keys).Draw(t, "lkey")
		if k == "-" {
			c.Class, c.Last = "dash", "-"
			break
		}
		d := "--"
		if c.Class == "single-dash-prefix" {
			d = "-"
		}
		c.Last = d + cut(k, "lkcut")
	case "opt-eq", "opt-eq-prefix":
		var cands []string
		for _, k := range keys {
			o := lv.Visible[k].Spec
			if len(o.Valid)+len(o.Suggested)+len(o.DynValues) > 0 && k != "-" {
				cands = append(cands, k)
			}
		}
		if len(cands) == 0 || rapid.IntRange(0, 5).Draw(t, "novals") == 0 {
			for _, k := range keys {
				if k != "-" {
					cands = append(cands, k)
				}
			}
		}
		if len(cands) == 0 {
			c.Class, c.Last = "dashdash", "--"
			break
		}
		k := rapid.SampledFrom(cands).Draw(t, "lvkey")
		o := lv.Visible[k].Spec
		c.Last = "--" + k + "="
		if c.Class == "opt-eq-prefix" {
			vals := append(append(append([]string{}, o.Valid...), o.Suggested...), o.DynValues...)
			if len(vals) > 0 {
				c.Last += cut(rapid.SampledFrom(vals).Draw(t, "lval"), "lvcut")
			} else {
				c.Last += "de"
			}
		}
	case "word":
		c.Last = rapid.SampledFrom([]string{"x", "zz", "he", "al", "l", "d"}).Draw(t, "lword")
	}
	return c
}

// optionNameOfLine maps one printed option candidate to the option name it stands for.
func optionNameOfLine(line string) (string, bool) {
	if line == "-" {
		return "-", true
	}
	if !strings.HasPrefix(line, "--") {
		return "", false
	}
	s := line[2:]
	if i := strings.Index(s, "="); i >= 0 {
		s = s[:i]
	}
	return s, s != ""
}

func normalSpec(p *ProgSpec) *ProgSpec {
	cp := *p
	cp.Mode = ModeNormal
	return &cp
}

func checkC17(c C17Case, st *evid.Stats) error {
	for _, w := range append(append([]string{}, c.Earlier...), c.Last) {
		if strings.ContainsAny(w, " \t\n\r\v\f") {
			st.Exclude("word contains whitespace")
			return nil
		}
	}
	ns := normalSpec(c.Spec)
	m := Model(ns, c.Earlier)
	if m.Unspecified != "" {
		st.Exclude("unspecified earlier words: " + m.Unspecified)
		return nil
	}
	if len(m.Causes) > 0 && !(len(m.Causes) == 1 && (m.Causes[0] == "required" || m.Causes[0] == "unknown")) {
		st.Exclude("earlier words do not parse: " + strings.Join(m.Causes, "+"))
		return nil
	}
	valuePos := c.OpenEnd > 0 && c.OpenEnd == len(c.Earlier)
	if valuePos {
		// Only a typed word that the open option takes as a value makes this a value position for certain
		// (C02: not option-looking and well-formed for the element type). Otherwise the typed word is a
		// positional while one of its completions may be a value (a command called "1" after an int list):
		// the clauses of the statement contradict each other there and nothing is judged.
		takes := !strings.HasPrefix(c.Last, "-")
		switch c.OpenElem {
		case "i":
			_, err := strconv.Atoi(c.Last)
			takes = takes && err == nil
		case "f":
			_, err := strconv.ParseFloat(c.Last, 64)
			takes = takes && err == nil
		case "m":
			takes = takes && strings.Contains(c.Last, "=")
		}
		if !takes {
			st.Exclude("open-ended option followed by a partial word it would not take as a value")
			return nil
		}
	}
	if m.Decisions > 0 {
		st.Exclude("earlier words contain an option that could still take a value, followed by further words")
		return nil
	}
	root := c.Spec.Levels()
	L := root.Find(m.Final)
	if L == nil {
		return failf("harness: model final level %q not found", m.Final)
	}
	// require-order on a command of the path: once its stop token has been seen everything is text and there
	// is nothing to complete; only lines that have not reached a stop token are judged
	for l := L; l != nil; l = l.Parent {
		if l.RequireOrder && len(m.Remaining) > 0 {
			st.Exclude("a require-order level of the path has seen its stop token")
			return nil
		}
	}
	sep := func(i int) string {
		if i < len(c.Seps) {
			for _, r := range c.Seps[i] {
				if r != ' ' && r != '\t' {
					return " "
				}
			}
			if c.Seps[i] != "" {
				return c.Seps[i]
			}
		}
		return " "
	}
	compLine := "./prog"
	for i, w := range c.Earlier {
		compLine += sep(i) + w
	}
	compLine += sep(len(c.Earlier)) + c.Last
	if len(c.Seps) > 0 && strings.Trim(strings.Join(c.Seps, ""), " ") != "" || strings.Contains(strings.Join(c.Seps, ""), "  ") {
		st.Class("words-separated-by-runs-of-blanks-or-tabs")
	}
	prev := "./prog"
	if len(c.Earlier) > 0 {
		prev = c.Earlier[len(c.Earlier)-1]
	}
	args := []string{"./prog", c.Last, prev}
	co := RunCompletion(c.Spec, compLine, c.Zsh, args)
	st.Eval()
	shell := "bash"
	if c.Zsh {
		shell = "zsh"
	}
	ctx := fmt.Sprintf("COMP_LINE=%q shell=%s level=%s", compLine, shell, L.Path)
	if co.Panic != "" {
		return failf("panic: %s; %s", co.Panic, ctx)
	}
	if co.Returned || len(co.ExitCodes) != 1 || co.ExitCodes[0] != 124 {
		return failf("completion must leave through the exit path exactly once with status 124; exit calls %v, Parse returned=%v; %s", co.ExitCodes, co.Returned, ctx)
	}
	if co.Invocations != 0 {
		return failf("a command function ran during completion; %s", ctx)
	}
	if co.Writer != "" && !valuePos {
		// (in a value position the partial word may be rejected as a value of the option before it - e.g. ""
		// for an int - and the library reports that on Writer before leaving through the exit path)
		return failf("completion wrote an error: %q; %s", co.Writer, ctx)
	}
	lines := co.Lines
	if valuePos {
		// The last word may be taken as a value of the option before it. No candidate set is asserted; but an
		// offered subcommand must be accepted as that command when written at this position.
		st.Class("last word in a value position (only the parser cross-check is asserted)")
		for _, ln := range lines {
			n := strings.TrimSuffix(ln, " ")
			ch, ok := L.Children[n]
			if !ok || ch.IsHelpCmd || ch.Spec.NoFn {
				continue
			}
			ps := *c.Spec
			ps.UnknownMode = UnkPass
			out := Run(&ps, append(append([]string{}, c.Earlier...), n), RunOpts{Dispatch: true})
			if out.ParseFailed {
				continue
			}
			if st.NT(fmt.Sprintf("vp|%v|%s|%v", c.Earlier, n, c.Zsh)) {
				st.Sample(map[string]interface{}{"comp_line": compLine, "shell": shell, "level": L.Path, "offered": lines})
			}
			if len(out.Inv) == 1 && out.Inv[0].Path != ch.Path {
				return failf("offered command %q is not accepted as a command at that position: %q runs %s (the word is taken as an option value); %s", n, append(append([]string{}, c.Earlier...), n), out.Inv[0].Path, ctx)
			}
		}
		if !sort.StringsAreSorted(lines) {
			return failf("completion candidates are not sorted: %s; %s", q(lines), ctx)
		}
		return nil
	}
	st.Class("last:" + c.Class)
	depth := strings.Count(L.Path, "/")
	var want []string
	kind := ""
	switch {
	case strings.HasPrefix(c.Last, "-") && !strings.Contains(c.Last, "="):
		kind = "options"
		stem := strings.TrimPrefix(strings.TrimPrefix(c.Last, "-"), "-")
		wantSet := map[string]bool{}
		for _, k := range L.VisibleKeys() {
			if k == "-" {
				if c.Last == "-" {
					wantSet[k] = true
				}
				continue
			}
			if strings.HasPrefix(k, stem) {
				wantSet[k] = true
			}
		}
		gotSet := map[string]bool{}
		for _, ln := range lines {
			n, ok := optionNameOfLine(ln)
			if !ok {
				return failf("completion line %q is not an option candidate; %s", ln, ctx)
			}
			gotSet[n] = true
		}
		for k := range wantSet {
			want = append(want, k)
			if !gotSet[k] {
				return failf("option %q (visible at %s, starts with %q) is not offered; offered %v; %s", k, L.Path, stem, lines, ctx)
			}
		}
		for k := range gotSet {
			if !wantSet[k] {
				return failf("offered option %q is not a declared name/alias at %s starting with %q; %s", k, L.Path, stem, ctx)
			}
		}
		total := len(L.Visible)
		if total >= 2 && len(wantSet) < total && (depth >= 1 || hasInherited(L)) {
			if st.NT(fmt.Sprintf("o|%v|%s|%s|%v", L.VisibleKeys(), c.Last, L.Path, c.Zsh)) {
				st.Sample(map[string]interface{}{"comp_line": compLine, "shell": shell, "level": L.Path, "offered": lines})
			}
		}
		// parser cross-check: every offered option is accepted at that position
		ps := *c.Spec
		ps.UnknownMode = UnkPass
		for k := range gotSet {
			tok := "--" + k
			if k == "-" {
				tok = "-"
			}
			o := L.Visible[k].Spec
			argv := append([]string{}, c.Earlier...)
			switch {
			case o.Kind.IsFlag():
				argv = append(argv, tok)
			default:
				v := map[byte]string{'s': "word", 'i': "7", 'f': "1.5", 'm': "k=v"}[o.Kind.Elem()]
				if len(o.Valid) > 0 {
					v = o.Valid[0]
				}
				if k == "-" {
					argv = append(argv, tok, v)
				} else {
					argv = append(argv, tok+"="+v)
				}
				for j := 1; j < o.Min; j++ {
					argv = append(argv, v)
				}
			}
			out := Run(&ps, argv, RunOpts{})
			if out.ParseFailed && !out.IsParsing {
				return failf("offered option %q is rejected by the parser at that position: Parse(%s) = %q; %s", k, q(argv), out.ParseErr, ctx)
			}
			for _, r := range out.Remaining {
				if r == argv[len(c.Earlier)] {
					return failf("offered option %q is unknown to the parser at that position (passed through): %s; %s", k, q(out.Remaining), ctx)
				}
			}
		}
	case strings.HasPrefix(c.Last, "--") && strings.Contains(c.Last, "="):
		kind = "values"
		name := c.Last[2:strings.Index(c.Last, "=")]
		partial := c.Last[strings.Index(c.Last, "=")+1:]
		vo, ok := L.Visible[name]
		if ok {
			o := vo.Spec
			for _, e := range append(append(append([]string{}, o.Valid...), o.Suggested...), o.DynValues...) {
				if strings.HasPrefix(e, partial) {
					if c.Zsh {
						want = append(want, "--"+name+"="+e)
					} else {
						want = append(want, e)
					}
				}
			}
		}
		sort.Strings(want)
		if !eqStrs(lines, want) {
			return failf("value completion for %q offered %s, want exactly %s; %s", c.Last, q(lines), q(want), ctx)
		}
		// parser cross-check: every offered value is accepted for that option at that position
		if ok {
			ps := *c.Spec
			ps.UnknownMode = UnkPass
			for _, w := range want {
				v := w
				if c.Zsh {
					v = strings.TrimPrefix(w, "--"+name+"=")
				}
				argv := append(append([]string{}, c.Earlier...), "--"+name+"="+v)
				for j := 1; j < vo.Spec.Min; j++ {
					argv = append(argv, v)
				}
				out := Run(&ps, argv, RunOpts{})
				if out.ParseFailed && !out.IsParsing {
					return failf("offered value %q is rejected by the parser: Parse(%s) = %q; %s", v, q(argv), out.ParseErr, ctx)
				}
			}
		}
		if len(want) >= 1 {
			if st.NT(fmt.Sprintf("v|%s|%s|%v|%v", name, partial, want, c.Zsh)) {
				st.Sample(map[string]interface{}{"comp_line": compLine, "shell": shell, "level": L.Path, "offered": lines})
			}
		}
	default:
		kind = "commands"
		var cands []string
		for _, n := range L.ChildSeq {
			if strings.HasPrefix(n, c.Last) {
				cands = append(cands, n)
			}
		}
		sugg := L.Spec.ArgSugg
		if L.IsHelpCmd {
			sugg = nil
			for _, n := range L.Parent.ChildSeq {
				if !L.Parent.Children[n].IsHelpCmd {
					sugg = append(sugg, n)
				}
			}
		}
		for _, s := range sugg {
			if strings.HasPrefix(s, c.Last) {
				cands = append(cands, s)
			}
		}
		for _, s := range L.Spec.ArgDyn {
			if strings.HasPrefix(s, c.Last) {
				cands = append(cands, s)
			}
		}
		sort.Strings(cands)
		want = cands
		got := append([]string{}, lines...)
		if !c.Zsh && len(got) == 1 {
			got[0] = strings.TrimSuffix(got[0], " ")
		}
		if !eqStrs(got, want) {
			return failf("argument completion for %q offered %s, want exactly %s (subcommands + static suggestions + dynamic results with the typed prefix); %s", c.Last, q(lines), q(want), ctx)
		}
		all := len(L.ChildSeq) + len(sugg) + len(L.Spec.ArgDyn)
		if all >= 2 && len(want) < all && depth >= 1 {
			if st.NT(fmt.Sprintf("c|%v|%s|%s|%v", want, c.Last, L.Path, c.Zsh)) {
				st.Sample(map[string]interface{}{"comp_line": compLine, "shell": shell, "level": L.Path, "offered": lines})
			}
		}
		// parser cross-check: an offered subcommand selects that command
		for _, n := range want {
			ch, ok := L.Children[n]
			if !ok || ch.IsHelpCmd || ch.Spec.NoFn {
				continue
			}
			ps := *c.Spec
			ps.UnknownMode = UnkPass
			argv := append(append([]string{}, c.Earlier...), n)
			out := Run(&ps, argv, RunOpts{Dispatch: true})
			if out.ParseFailed {
				continue // missing required options etc.
			}
			if len(out.Inv) == 1 && out.Inv[0].Path != ch.Path {
				return failf("offered command %q does not select %s when given at that position (ran %s); %s", n, ch.Path, out.Inv[0].Path, ctx)
			}
		}
	}
	st.Class("branch:" + kind)
	cmp := append([]string{}, lines...)
	if !sort.StringsAreSorted(cmp) {
		return failf("completion candidates are not sorted: %s; %s", q(lines), ctx)
	}
	return nil
}

func hasInherited(l *Level) bool {
	for _, vo := range l.Visible {
		if vo.Owner != l.Path {
			return true
		}
	}
	return false
}

var propC17 = &Prop[C17Case]{ID: "C17", Sub: "completion",
	Rule:  "rapid: command trees (aliases, inherited options, valid/suggested/dynamic values, static+dynamic argument suggestions, wrappers, commands without function, help) x COMP_LINE = program name + earlier words that parse on their own and leave no option waiting for a value (commands, --flag, --opt=value, --opt value for mandatory scalars, words; in a quarter of the cases separated by runs of blanks / tabs; wrapper commands with require-order until their stop token) + partial last word {empty, prefix of a command/suggestion, -, --, --prefix, -prefix, --name=, --name=prefix, unrelated word} x bash/zsh; in-process through the exit/writer hook; non-trivial = the typed prefix filters a candidate set of >=2 at depth>=1 or with inherited options, or a value completion with >=1 candidate; distinct by (candidate set, last word, level, shell)",
	Gen:   genC17,
	Check: checkC17,
}

func init() { propC17.Register() }

func TestC17_completion(t *testing.T) { propC17.Run(t) }

func FuzzC17_completion(f *testing.F) { propC17.RunFuzz(f) }
