package cli

import (
	"fmt"
	"strings"
	"testing"

	"pgregory.net/rapid"

	"verif/harness/evid"
)

// C07 - single-dash modes follow the documented rewriting; long options ignore the mode.
// Oracle: metamorphic, model-free. The same definition is rebuilt fresh for both
// sides; the command lines differ only in the focus token vs. its documented rewriting.

type C07Case struct {
	Spec    *ProgSpec `json:"spec"`
	Rel     string    `json:"rel"` // normal | bundle | singledash | long-modes
	Pre     Toks      `json:"pre"`
	Tok     BS        `json:"tok"`
	Rewrite Toks      `json:"rewrite"`
	Post    Toks      `json:"post"`
	Shape   string    `json:"shape,omitempty"`
}

// longOnly renders a few long-form tokens / words valid at level lv (identical meaning in all modes).
func longOnly(t *rapid.T, lv *Level, n int, label string) []string {
	out := []string{}
	keys := lv.VisibleKeys()
	for i := 0; i < n; i++ {
		switch rapid.IntRange(0, 3).Draw(t, label+"k") {
		case 0, 1:
			if len(keys) == 0 {
				continue
			}
			k := rapid.SampledFrom(keys).Draw(t, label+"key")
			if k == "-" {
				continue
			}
			o := lv.Visible[k].Spec
			tok := "--" + k
			if o.Kind.IsFlag() {
				out = append(out, tok)
				continue
			}
			v := goodValue(t, o, label+"v")
			if rapid.Bool().Draw(t, label+"att") {
				out = append(out, tok+"="+v)
				if o.Kind.IsMulti() {
					for j := 1; j < o.Min; j++ {
						out = append(out, goodValue(t, o, label+"mv"))
					}
				}
			} else if o.Kind.IsOptional() {
				out = append(out, tok)
			} else {
				out = append(out, tok)
				for j := 0; j < max(1, o.Min); j++ {
					out = append(out, goodValue(t, o, label+"dv"))
				}
			}
		case 2:
			out = append(out, rapid.SampledFrom([]string{"foo", "bar", "", "k=v", "1"}).Draw(t, label+"w"))
		case 3:
			if lv.UnknownMode == UnkFail && rapid.IntRange(0, 5).Draw(t, label+"uf") > 0 {
				continue
			}
			out = append(out, "--"+rapid.SampledFrom([]string{"unk", "zzz", "nope=1"}).Draw(t, label+"u"))
		}
	}
	return out
}

func genC07(t *rapid.T) C07Case {
	cfg := DefaultCfg()
	cfg.SingleLetters = 1
	cfg.MaxOpts = 7
	cfg.MinOpts = 2
	cfg.MaxDepth = 1
	cfg.NoDashName = true
	cfg.RequireOrder = 0 // after a require-order stop everything is verbatim text: the two spellings differ by construction (C09 covers it)
	spec := GenProg(t, cfg)
	c := C07Case{Spec: spec}
	c.Rel = rapid.SampledFrom([]string{"normal", "bundle", "bundle", "bundle-long", "singledash", "singledash", "long-modes"}).Draw(t, "rel")
	lv := spec.Levels()
	var path []string
	if rapid.Bool().Draw(t, "incmd") {
		// the focus token stands after a command token: same rewriting rules inside commands
		var cands []string
		for _, n := range lv.ChildSeq {
			if !lv.Children[n].IsHelpCmd && len(lv.Children[n].Visible) > 0 {
				cands = append(cands, n)
			}
		}
		if len(cands) > 0 {
			n := rapid.SampledFrom(cands).Draw(t, "cmdlevel")
			path = []string{n}
			lv = lv.Children[n]
		}
	}
	c.Pre = append(append(Toks{}, path...), longOnly(t, lv, rapid.IntRange(0, 2).Draw(t, "npre"), "pre")...)
	// do not let pre descend: keep words out of the command names
	for i, w := range c.Pre {
		if _, ok := lv.Children[w]; ok && i >= len(path) {
			c.Pre[i] = "foo"
		}
	}
	keys := lv.VisibleKeys()
	var singles, singleFlags []string
	for _, k := range keys {
		if len([]rune(k)) == 1 && k != "-" {
			singles = append(singles, k)
			if lv.Visible[k].Spec.Kind.IsFlag() {
				singleFlags = append(singleFlags, k)
			}
		}
	}
	rest := func(label string, o *OptSpec) string {
		if o != nil && !o.Kind.IsFlag() && rapid.IntRange(0, 9).Draw(t, label+"good") < 6 {
			return goodValue(t, o, label+"gv")
		}
		if rapid.IntRange(0, 4).Draw(t, label+"rb") == 0 {
			return string(rapid.SliceOfN(rapid.Byte(), 1, 8).Draw(t, label+"bytes"))
		}
		pool := append(append(append([]string{}, strValPool...), intValid...), floatValid...)
		pool = append(pool, mapValid...)
		for i := 0; i < 20; i++ {
			v := rapid.SampledFrom(pool).Draw(t, label)
			if v != "" {
				return v
			}
		}
		return "x"
	}
	switch c.Rel {
	case "normal":
		spec.Mode = ModeNormal
		var name string
		if len(keys) > 0 && rapid.IntRange(0, 5).Draw(t, "nk") > 0 {
			k := rapid.SampledFrom(keys).Draw(t, "nkey")
			if k == "-" {
				k = "foo"
			}
			name = k
			if rapid.IntRange(0, 2).Draw(t, "npre") == 0 && len(k) > 1 {
				// any prefix (unique, ambiguous or unknown): both spellings must agree anyway
				cut := rapid.IntRange(1, len(k)-1).Draw(t, "ncut")
				for !isRuneBoundary(k, cut) {
					cut--
				}
				if cut > 0 {
					name = k[:cut]
				}
			}
		} else {
			name = rapid.SampledFrom([]string{"ver", "v", "h", "li", "é", "日"}).Draw(t, "nname")
		}
		tok := name
		if rapid.IntRange(0, 19).Draw(t, "nempty") == 0 {
			tok += "=" // -name= and --name= must mean the same, whatever that is
		} else if rapid.IntRange(0, 2).Draw(t, "nval") > 0 {
			var no *OptSpec
			if k2, _ := resolve(lv, name); k2 != "" {
				no = lv.Visible[k2].Spec
			}
			tok += "=" + rest("nv", no)
		}
		c.Tok = BS("-" + tok)
		c.Rewrite = Toks{"--" + tok}
		c.Shape = "name"
	case "bundle", "bundle-long":
		spec.Mode = ModeBundling
		if len(singles) == 0 {
			c.Rel = "long-modes"
			break
		}
		nf := rapid.IntRange(0, 3).Draw(t, "nflags")
		var letters []string
		for i := 0; i < nf && len(singleFlags) > 0; i++ {
			letters = append(letters, rapid.SampledFrom(singleFlags).Draw(t, "bflag"))
		}
		z := rapid.SampledFrom(singles).Draw(t, "bz")
		letters = append(letters, z)
		tok := "-" + strings.Join(letters, "")
		rwDash := "-"
		if c.Rel == "bundle-long" {
			rwDash = "--" // a bundled letter x denotes option x, and long options do not depend on the mode
		}
		rw := Toks{}
		for _, l := range letters[:len(letters)-1] {
			rw = append(rw, rwDash+l)
		}
		last := rwDash + z
		if rapid.IntRange(0, 2).Draw(t, "bval") == 0 {
			v := rest("bv", lv.Visible[z].Spec)
			tok += "=" + v
			last += "=" + v
		}
		rw = append(rw, last)
		c.Tok = BS(tok)
		c.Rewrite = rw
		c.Shape = fmt.Sprintf("flags%d+%s", len(letters)-1, lv.Visible[z].Spec.Kind)
	case "singledash":
		spec.Mode = ModeSingleDash
		if len(singles) == 0 {
			c.Rel = "long-modes"
			break
		}
		x := rapid.SampledFrom(singles).Draw(t, "sx")
		// the head letter may also be the unique one-letter abbreviation of a longer name: `-j4` is `--j=4`, and what
		// `--j` means is the business of the abbreviation rule, the same on both sides
		var abbrev []string
		abbrevOf := map[string]string{}
		for _, k := range keys {
			r := []rune(k)
			if len(r) < 2 {
				continue
			}
			h, n := string(r[0]), 0
			for _, k2 := range keys {
				if strings.HasPrefix(k2, h) {
					n++
				}
			}
			if n == 1 && h != "-" && h != "=" {
				abbrev = append(abbrev, h)
				abbrevOf[h] = k
			}
		}
		xSpecKey := x
		if len(abbrev) > 0 && rapid.IntRange(0, 2).Draw(t, "sabbrev") == 0 {
			x = rapid.SampledFrom(abbrev).Draw(t, "sax")
			xSpecKey = abbrevOf[x]
			c.Shape = "abbreviated-head:"
		}
		if rapid.IntRange(0, 4).Draw(t, "sbare") == 0 {
			c.Tok = BS("-" + x)
			c.Rewrite = Toks{"--" + x}
			c.Shape += "bare:" + lv.Visible[xSpecKey].Spec.Kind.String()
		} else {
			r := rest("sr", lv.Visible[xSpecKey].Spec)
			c.Tok = BS("-" + x + r)
			c.Rewrite = Toks{"--" + x + "=" + r}
			c.Shape += "rest:" + lv.Visible[xSpecKey].Spec.Kind.String()
		}
	}
	if c.Rel == "long-modes" {
		c.Tok = ""
		c.Rewrite = nil
		c.Shape = "long"
		c.Pre = append(append(Toks{}, path...), longOnly(t, lv, rapid.IntRange(1, 6).Draw(t, "nlong"), "long")...)
	}
	c.Post = longOnly(t, lv, rapid.IntRange(0, 2).Draw(t, "npost"), "post")
	if rapid.Bool().Draw(t, "postval") {
		c.Post = append(Toks{rapid.SampledFrom([]string{"7", "1.5", "k=v", "foo", "list"}).Draw(t, "pv")}, c.Post...)
	}
	return c
}

func sameOutcome(A, B *Outcome) string {
	if A.ParseFailed != B.ParseFailed {
		return fmt.Sprintf("Parse failed=%v (%q) vs failed=%v (%q)", A.ParseFailed, A.ParseErr, B.ParseFailed, B.ParseErr)
	}
	if A.ParseFailed {
		return ""
	}
	if d := optsDiff(A.Opts, B.Opts); d != "" {
		return "option state differs: " + d
	}
	if !eqStrs(A.Remaining, B.Remaining) {
		return fmt.Sprintf("remaining %s vs %s", q(A.Remaining), q(B.Remaining))
	}
	if A.Writer != B.Writer {
		return fmt.Sprintf("warnings %q vs %q", A.Writer, B.Writer)
	}
	if A.DispFailed != B.DispFailed || len(A.Inv) != len(B.Inv) {
		return fmt.Sprintf("dispatch differs: failed %v/%v invocations %d/%d", A.DispFailed, B.DispFailed, len(A.Inv), len(B.Inv))
	}
	for i := range A.Inv {
		if A.Inv[i].Path != B.Inv[i].Path || !eqStrs(A.Inv[i].Args, B.Inv[i].Args) {
			return fmt.Sprintf("dispatched %s%s vs %s%s", A.Inv[i].Path, q(A.Inv[i].Args), B.Inv[i].Path, q(B.Inv[i].Args))
		}
	}
	return ""
}

func checkC07(c C07Case, st *evid.Stats) error {
	if c.Rel == "long-modes" {
		argv := append(append([]string{}, c.Pre...), c.Post...)
		if DangerousRange(argv) {
			st.Exclude("int range beyond bound")
			return nil
		}
		var outs [3]*Outcome
		for m := 0; m < 3; m++ {
			s := *c.Spec
			s.Mode = m
			outs[m] = Run(&s, argv, RunOpts{Dispatch: true})
			if outs[m].Panic != "" {
				return failf("panic: %s", outs[m].Panic)
			}
		}
		st.Eval()
		st.Class("rel:long-modes")
		if len(argv) >= 2 {
			if st.NT("long|" + strings.Join(argv, "\x00")) {
				st.Sample(map[string]interface{}{"rel": c.Rel, "argv": Toks(argv)})
			}
		}
		for m := 1; m < 3; m++ {
			if d := sameOutcome(outs[0], outs[m]); d != "" {
				return failf("long-option-only command line %s is interpreted differently in %s and %s mode: %s", q(argv), modeNames[0], modeNames[m], d)
			}
			if outs[0].ParseFailed && outs[0].ParseErr != outs[m].ParseErr {
				return failf("long-option-only command line %s fails differently in %s and %s mode: %q vs %q", q(argv), modeNames[0], modeNames[m], outs[0].ParseErr, outs[m].ParseErr)
			}
		}
		return nil
	}
	argvA := append(append(append([]string{}, c.Pre...), string(c.Tok)), c.Post...)
	argvB := append(append(append([]string{}, c.Pre...), c.Rewrite...), c.Post...)
	if DangerousRange(argvA) || DangerousRange(argvB) {
		st.Exclude("int range beyond bound")
		return nil
	}
	A := Run(c.Spec, argvA, RunOpts{Dispatch: true})
	B := Run(c.Spec, argvB, RunOpts{Dispatch: true})
	st.Eval()
	st.Class("rel:" + c.Rel)
	if A.Panic != "" || B.Panic != "" {
		return failf("panic: %q / %q", A.Panic, B.Panic)
	}
	tok := string(c.Tok)
	if len([]rune(tok)) > 2 || !isASCII(tok) {
		if st.NT(c.Rel + "|" + c.Shape + "|" + tok) {
			st.Sample(map[string]interface{}{"rel": c.Rel, "token": c.Tok, "rewriting": c.Rewrite, "pre": c.Pre, "post": c.Post, "shape": c.Shape})
		}
	}
	if A.ParseFailed {
		st.Class("both-fail-or-diff")
	}
	if c.Rel == "normal" && len(c.Rewrite) == 1 {
		// an unknown name is passed through verbatim: the two spellings differ textually by construction
		sub := func(xs []string) {
			for i := range xs {
				if xs[i] == tok {
					xs[i] = c.Rewrite[0]
				}
			}
		}
		sub(A.Remaining)
		for i := range A.Inv {
			sub(A.Inv[i].Args)
		}
	}
	if d := sameOutcome(A, B); d != "" {
		return failf("%s mode: token %q is not equivalent to its documented rewriting %s: %s (argv %s vs %s)", modeNames[c.Spec.Mode], tok, q(c.Rewrite), d, q(argvA), q(argvB))
	}
	return nil
}

var propC07 = &Prop[C07Case]{ID: "C07", Sub: "modes",
	Rule:  "rapid: definitions rich in single-letter (incl. multibyte) flag and valued options; relation drawn from {Normal: -name[=v] vs --name[=v]; Bundling: -xyz[=v] (x,y declared flags, z any declared letter) vs -x -y -z[=v] and vs --x --y --z[=v]; the token stands at the root or after a command token; SingleDash: -xREST vs --x=REST and -x vs --x; long-only argv in all 3 modes}; REST/v from hostile pools or random bytes ('=', newlines, invalid UTF-8, multibyte); surrounded by long-form tokens; non-trivial = token longer than 2 runes or non-ASCII (long-modes: >=2 tokens); distinct by (relation, shape, token)",
	Gen:   genC07,
	Check: checkC07,
}

func init() { propC07.Register() }

func TestC07_modes(t *testing.T) { propC07.Run(t) }

func FuzzC07_modes(f *testing.F) { propC07.RunFuzz(f) }
