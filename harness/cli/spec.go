// Package cli holds the harness for the command-line properties (C01-C12, C17-C20):
// a JSON-able program specification, a builder that turns it into a live
// go-getoptions definition with instrumented command functions, an observer
// that records every observable outcome, a reference model, generators and the
// per-property checks.
package cli

import (
	"fmt"
	"math"
	"sort"
	"strconv"
	"strings"
)

// Kind enumerates the 12 option kinds of the library.
type Kind int

const (
	KBool Kind = iota
	KIncrement
	KString
	KInt
	KFloat
	KStringOpt
	KIntOpt
	KFloatOpt
	KStringSlice
	KIntSlice
	KFloatSlice
	KStringMap
	NumKinds
)

var kindNames = [...]string{"Bool", "Increment", "String", "Int", "Float64", "StringOptional", "IntOptional", "Float64Optional", "StringSlice", "IntSlice", "Float64Slice", "StringMap"}

func (k Kind) String() string {
	if k >= 0 && int(k) < len(kindNames) {
		return kindNames[k]
	}
	return "Kind(" + strconv.Itoa(int(k)) + ")"
}

func (k Kind) IsFlag() bool     { return k == KBool || k == KIncrement }
func (k Kind) IsScalar() bool   { return k >= KString && k <= KFloatOpt }
func (k Kind) IsOptional() bool { return k >= KStringOpt && k <= KFloatOpt }
func (k Kind) IsMulti() bool    { return k >= KStringSlice && k <= KStringMap }
func (k Kind) IsMandatoryScalar() bool {
	return k == KString || k == KInt || k == KFloat
}

// Elem returns the element type of the option: 's' string, 'i' int, 'f' float, 'm' key=value, 'b' flag.
func (k Kind) Elem() byte {
	switch k {
	case KString, KStringOpt, KStringSlice:
		return 's'
	case KInt, KIntOpt, KIntSlice:
		return 'i'
	case KFloat, KFloatOpt, KFloatSlice:
		return 'f'
	case KStringMap:
		return 'm'
	}
	return 'b'
}

// OptSpec describes one option definition.
type OptSpec struct {
	Kind        Kind     `json:"kind"`
	Name        string   `json:"name"`
	Aliases     []string `json:"aliases,omitempty"`
	DefBool     bool     `json:"def_bool,omitempty"`
	DefInt      int      `json:"def_int,omitempty"`
	DefFloat    float64  `json:"def_float,omitempty"`
	DefStr      string   `json:"def_str,omitempty"`
	Min         int      `json:"min,omitempty"`
	Max         int      `json:"max,omitempty"`
	Required    bool     `json:"required,omitempty"`
	RequiredMsg string   `json:"required_msg,omitempty"`
	Env         string   `json:"env,omitempty"`
	Desc        string   `json:"desc,omitempty"`
	ArgName     string   `json:"arg_name,omitempty"`
	Suggested   []string `json:"suggested,omitempty"`
	Valid       []string `json:"valid,omitempty"`
	DynValues   []string `json:"dyn_values,omitempty"`  // returned (prefix-filtered) by a SuggestedValuesFn
	UseVar      bool     `json:"use_var,omitempty"`     // define through the *Var form
	PreFill     bool     `json:"prefill,omitempty"`     // multi-valued *Var target already holds entries when it is handed to the definition (C20 only: no model behind it)
	PreSet      []string `json:"preset,omitempty"`      // SetValue(name, PreSet...) right after the definition, before Parse (C06 only: no model behind it)
	SetCalled   bool     `json:"set_called,omitempty"`  // opt.SetCalled(true) modifier
	AliasSplit  bool     `json:"alias_split,omitempty"` // one Alias() modifier per alias instead of a single call
}

// Keys returns the primary name followed by the aliases.
func (o *OptSpec) Keys() []string {
	return append([]string{o.Name}, o.Aliases...)
}

// DefaultCanon is the canonical rendering of the declared default.
func (o *OptSpec) DefaultCanon() string {
	switch o.Kind {
	case KBool:
		return Canon(o.DefBool)
	case KIncrement, KInt, KIntOpt:
		return Canon(o.DefInt)
	case KFloat, KFloatOpt:
		return Canon(o.DefFloat)
	case KString, KStringOpt:
		return Canon(o.DefStr)
	case KStringSlice:
		return Canon([]string{})
	case KIntSlice:
		return Canon([]int{})
	case KFloatSlice:
		return Canon([]float64{})
	case KStringMap:
		return Canon(map[string]string{})
	}
	return "?"
}

// CmdSpec describes one command level (the root program is a CmdSpec too).
type CmdSpec struct {
	Name         string      `json:"name"`
	Desc         string      `json:"desc,omitempty"`
	Opts         []OptSpec   `json:"opts,omitempty"`
	Cmds         []CmdSpec   `json:"cmds,omitempty"`
	NoFn         bool        `json:"no_fn,omitempty"`
	Unset        bool        `json:"unset,omitempty"`         // wrapper: UnsetOptions() right after creation
	UnknownMode  int         `json:"unknown_mode,omitempty"`  // -1/0 = inherit (0 means not set explicitly); 1+x = set x explicitly
	RequireOrder bool        `json:"require_order,omitempty"` // SetRequireOrder() on this node (before its children are created)
	ArgSugg      []string    `json:"arg_sugg,omitempty"`      // ArgCompletions
	ArgDyn       []string    `json:"arg_dyn,omitempty"`       // ArgCompletionsFns result pool (prefix filtered by the fn)
	SynArgs      [][2]string `json:"syn_args,omitempty"`      // HelpSynopsisArg(arg, description)
}

// ProgSpec is a complete program definition plus the environment it is built in.
type ProgSpec struct {
	Root         CmdSpec           `json:"root"`
	Mode         int               `json:"mode"`                     // 0 Normal, 1 Bundling, 2 SingleDash
	ModeLate     bool              `json:"mode_late,omitempty"`      // SetMode is called after all commands have been declared
	MapKeysLower bool              `json:"map_keys_lower,omitempty"` // SetMapKeysToLower on the program (C06 only)
	UnknownMode  int               `json:"unknown"`                  // 0 Fail, 1 Warn, 2 Pass
	UnknownLate  int               `json:"unknown_late,omitempty"`   // 1+x: SetUnknownMode(x) is called on the program again AFTER all commands were declared; commands keep the mode they inherited when they were created (documented: set it before NewCommand to have it inherited)
	RequireOrder bool              `json:"require_order"`            // on the root, before commands
	Help         string            `json:"help,omitempty"`
	HelpAliases  []string          `json:"help_aliases,omitempty"`
	Env          map[string]string `json:"env,omitempty"`
}

const (
	ModeNormal     = 0
	ModeBundling   = 1
	ModeSingleDash = 2
	UnkFail        = 0
	UnkWarn        = 1
	UnkPass        = 2
)

var modeNames = []string{"Normal", "Bundling", "SingleDash"}
var unkNames = []string{"Fail", "Warn", "Pass"}

// Canon renders a value read from the library into a canonical, comparable
// string. Floats are rendered by bit pattern so NaN compares equal to NaN and
// -0 differs from +0.
func Canon(v interface{}) string {
	switch x := v.(type) {
	case nil:
		return "nil"
	case bool:
		return "b:" + strconv.FormatBool(x)
	case int:
		return "i:" + strconv.Itoa(x)
	case string:
		return "s:" + strconv.Quote(x)
	case float64:
		return "f:" + floatCanon(x)
	case []string:
		q := make([]string, len(x))
		for i, e := range x {
			q[i] = strconv.Quote(e)
		}
		return "S:[" + strings.Join(q, ",") + "]"
	case []int:
		q := make([]string, len(x))
		for i, e := range x {
			q[i] = strconv.Itoa(e)
		}
		return "I:[" + strings.Join(q, ",") + "]"
	case []float64:
		q := make([]string, len(x))
		for i, e := range x {
			q[i] = floatCanon(e)
		}
		return "F:[" + strings.Join(q, ",") + "]"
	case map[string]string:
		keys := make([]string, 0, len(x))
		for k := range x {
			keys = append(keys, k)
		}
		sort.Strings(keys)
		q := make([]string, len(keys))
		for i, k := range keys {
			q[i] = strconv.Quote(k) + ":" + strconv.Quote(x[k])
		}
		return "M:{" + strings.Join(q, ",") + "}"
	}
	return fmt.Sprintf("?:%T:%v", v, v)
}

func floatCanon(f float64) string {
	if math.IsNaN(f) {
		return "NaN"
	}
	return strconv.FormatFloat(f, 'g', -1, 64) + "/" + strconv.FormatUint(math.Float64bits(f), 16)
}

// Walk calls fn for every command level with its path ("prog", "prog/sub", ...).
func (p *ProgSpec) Walk(fn func(path string, c *CmdSpec, parents []*CmdSpec)) {
	var rec func(path string, c *CmdSpec, parents []*CmdSpec)
	rec = func(path string, c *CmdSpec, parents []*CmdSpec) {
		fn(path, c, parents)
		np := append(append([]*CmdSpec{}, parents...), c)
		for i := range c.Cmds {
			rec(path+"/"+c.Cmds[i].Name, &c.Cmds[i], np)
		}
	}
	rec(p.Root.Name, &p.Root, nil)
}

// Level is the resolved view of one command level: the options visible there.
type Level struct {
	Path     string
	Spec     *CmdSpec
	Parent   *Level
	Children map[string]*Level
	ChildSeq []string
	// Visible maps every key (name or alias) visible at this level to its option and owning level path.
	Visible map[string]*VisOpt
	// effective settings
	UnknownMode  int
	RequireOrder bool
	IsHelpCmd    bool
}

// VisOpt is an option as visible from some level.
type VisOpt struct {
	Spec  *OptSpec
	Owner string // path of the defining level ("" for the help option => root)
	Help  bool   // the built-in help option
}

// Levels resolves inheritance: which options are visible at which level, and
// the effective unknown-mode / require-order per level. The help command nodes
// are included as children named p.Help (IsHelpCmd).
func (p *ProgSpec) Levels() *Level {
	var helpOpt *OptSpec
	if p.Help != "" {
		helpOpt = &OptSpec{Kind: KBool, Name: p.Help, Aliases: p.HelpAliases}
	}
	var rec func(path string, c *CmdSpec, parent *Level, unk int, ro bool) *Level
	rec = func(path string, c *CmdSpec, parent *Level, unk int, ro bool) *Level {
		l := &Level{Path: path, Spec: c, Parent: parent, Children: map[string]*Level{}, Visible: map[string]*VisOpt{}}
		if c.UnknownMode > 0 {
			unk = c.UnknownMode - 1
		}
		if c.RequireOrder {
			ro = true
		}
		l.UnknownMode, l.RequireOrder = unk, ro
		if parent != nil && !c.Unset {
			for k, v := range parent.Visible {
				l.Visible[k] = v
			}
		}
		if parent == nil && helpOpt != nil {
			vo := &VisOpt{Spec: helpOpt, Owner: path, Help: true}
			for _, k := range helpOpt.Keys() {
				l.Visible[k] = vo
			}
		}
		for i := range c.Opts {
			vo := &VisOpt{Spec: &c.Opts[i], Owner: path}
			for _, k := range c.Opts[i].Keys() {
				l.Visible[k] = vo
			}
		}
		for i := range c.Cmds {
			ch := rec(path+"/"+c.Cmds[i].Name, &c.Cmds[i], l, unk, ro)
			l.Children[c.Cmds[i].Name] = ch
			l.ChildSeq = append(l.ChildSeq, c.Cmds[i].Name)
		}
		if p.Help != "" {
			// help command: no options, unknown mode Fail, no require-order (fresh node)
			h := &Level{Path: path + "/" + p.Help, Spec: &CmdSpec{Name: p.Help}, Parent: l, Children: map[string]*Level{}, Visible: map[string]*VisOpt{}, IsHelpCmd: true}
			l.Children[p.Help] = h
			l.ChildSeq = append(l.ChildSeq, p.Help)
		}
		return l
	}
	root := rec(p.Root.Name, &p.Root, nil, p.UnknownMode, p.RequireOrder)
	if p.UnknownLate > 0 {
		root.UnknownMode = p.UnknownLate - 1
	}
	return root
}

// Find returns the level with the given path.
func (l *Level) Find(path string) *Level {
	if l.Path == path {
		return l
	}
	for _, c := range l.Children {
		if strings.HasPrefix(path, c.Path) {
			if r := c.Find(path); r != nil {
				return r
			}
		}
	}
	return nil
}

// AllLevels lists the level and all its descendants, depth first, definition order.
func (l *Level) AllLevels() []*Level {
	out := []*Level{l}
	for _, n := range l.ChildSeq {
		out = append(out, l.Children[n].AllLevels()...)
	}
	return out
}

// VisibleKeys returns the sorted keys visible at this level.
func (l *Level) VisibleKeys() []string {
	keys := make([]string, 0, len(l.Visible))
	for k := range l.Visible {
		keys = append(keys, k)
	}
	sort.Strings(keys)
	return keys
}

// VisibleOpts returns the distinct options visible at this level sorted by name.
func (l *Level) VisibleOpts() []*VisOpt {
	seen := map[*VisOpt]bool{}
	var out []*VisOpt
	for _, k := range l.VisibleKeys() {
		v := l.Visible[k]
		if !seen[v] {
			seen[v] = true
			out = append(out, v)
		}
	}
	sort.Slice(out, func(i, j int) bool { return out[i].Spec.Name < out[j].Spec.Name })
	return out
}
