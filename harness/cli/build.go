package cli

import (
	"bytes"
	"context"
	"errors"
	"fmt"
	"os"
	"sort"
	"strings"

	getoptions "github.com/DavidGamba/go-getoptions"
)

// Node is a live command level.
type Node struct {
	Path     string
	Spec     *CmdSpec
	G        *getoptions.GetOpt
	Parent   *Node
	Children []*Node
	ptrs     map[string]interface{} // own option name -> pointer handed out / target variable
}

// Built is a live program definition.
type Built struct {
	Spec  *ProgSpec
	Root  *Node
	Nodes map[string]*Node
	Lv    *Level
	Log   []Invocation
	// DynCalls counts calls to dynamic completion functions.
	DynCalls int
}

type ctxKey struct{}

// Invocation records one call of an instrumented CommandFn.
type Invocation struct {
	Path    string            `json:"path"`
	Args    []string          `json:"args"`
	ArgsNil bool              `json:"args_nil,omitempty"`
	CtxOK   bool              `json:"ctx_ok"`
	Seen    map[string]OptObs `json:"seen,omitempty"` // key -> observation through the *GetOpt handed to the function
}

// OptObs is what can be observed about one option key at one level.
type OptObs struct {
	Val    string `json:"val"`
	Called bool   `json:"called"`
	As     string `json:"as"`
	Ptr    string `json:"ptr,omitempty"` // value through the definition pointer / Var target (owning level, primary name only)
}

func modFns(g *getoptions.GetOpt, o *OptSpec, b *Built) []getoptions.ModifyFn {
	var fns []getoptions.ModifyFn
	if len(o.Aliases) > 0 {
		if o.AliasSplit {
			for _, a := range o.Aliases {
				fns = append(fns, g.Alias(a))
			}
		} else {
			fns = append(fns, g.Alias(o.Aliases...))
		}
	}
	if o.Desc != "" {
		fns = append(fns, g.Description(o.Desc))
	}
	if o.Required {
		if o.RequiredMsg != "" {
			fns = append(fns, g.Required(o.RequiredMsg))
		} else {
			fns = append(fns, g.Required())
		}
	}
	if o.Env != "" {
		fns = append(fns, g.GetEnv(o.Env))
	}
	if o.ArgName != "" {
		fns = append(fns, g.ArgName(o.ArgName))
	}
	if len(o.Valid) > 0 {
		fns = append(fns, g.ValidValues(o.Valid...))
	}
	if len(o.Suggested) > 0 {
		fns = append(fns, g.SuggestedValues(o.Suggested...))
	}
	if len(o.DynValues) > 0 {
		pool := o.DynValues
		fns = append(fns, g.SuggestedValuesFn(func(target string, partial string) []string {
			b.DynCalls++
			var out []string
			for _, e := range pool {
				if strings.HasPrefix(e, partial) {
					out = append(out, e)
				}
			}
			return out
		}))
	}
	if o.SetCalled {
		fns = append(fns, g.SetCalled(true))
	}
	return fns
}

func defineOpt(g *getoptions.GetOpt, o *OptSpec, b *Built) interface{} {
	fns := modFns(g, o, b)
	switch o.Kind {
	case KBool:
		if o.UseVar {
			p := new(bool)
			*p = !o.DefBool // stale content of the caller's variable
			g.BoolVar(p, o.Name, o.DefBool, fns...)
			return p
		}
		return g.Bool(o.Name, o.DefBool, fns...)
	case KIncrement:
		if o.UseVar {
			p := new(int)
			*p = 987654 // stale content of the caller's variable
			g.IncrementVar(p, o.Name, o.DefInt, fns...)
			return p
		}
		return g.Increment(o.Name, o.DefInt, fns...)
	case KString:
		if o.UseVar {
			p := new(string)
			*p = "stale-before-definition"
			g.StringVar(p, o.Name, o.DefStr, fns...)
			return p
		}
		return g.String(o.Name, o.DefStr, fns...)
	case KInt:
		if o.UseVar {
			p := new(int)
			*p = 987654 // stale content of the caller's variable
			g.IntVar(p, o.Name, o.DefInt, fns...)
			return p
		}
		return g.Int(o.Name, o.DefInt, fns...)
	case KFloat:
		if o.UseVar {
			p := new(float64)
			*p = 9876.5 // stale content of the caller's variable
			g.Float64Var(p, o.Name, o.DefFloat, fns...)
			return p
		}
		return g.Float64(o.Name, o.DefFloat, fns...)
	case KStringOpt:
		if o.UseVar {
			p := new(string)
			*p = "stale-before-definition"
			g.StringVarOptional(p, o.Name, o.DefStr, fns...)
			return p
		}
		return g.StringOptional(o.Name, o.DefStr, fns...)
	case KIntOpt:
		if o.UseVar {
			p := new(int)
			*p = 987654 // stale content of the caller's variable
			g.IntVarOptional(p, o.Name, o.DefInt, fns...)
			return p
		}
		return g.IntOptional(o.Name, o.DefInt, fns...)
	case KFloatOpt:
		if o.UseVar {
			p := new(float64)
			*p = 9876.5 // stale content of the caller's variable
			g.Float64VarOptional(p, o.Name, o.DefFloat, fns...)
			return p
		}
		return g.Float64Optional(o.Name, o.DefFloat, fns...)
	case KStringSlice:
		if o.UseVar {
			p := new([]string)
			*p = []string{}
			if o.PreFill {
				*p = []string{"pre1", "pre2"}
			}
			g.StringSliceVar(p, o.Name, o.Min, o.Max, fns...)
			return p
		}
		return g.StringSlice(o.Name, o.Min, o.Max, fns...)
	case KIntSlice:
		if o.UseVar {
			p := new([]int)
			*p = []int{}
			g.IntSliceVar(p, o.Name, o.Min, o.Max, fns...)
			return p
		}
		return g.IntSlice(o.Name, o.Min, o.Max, fns...)
	case KFloatSlice:
		if o.UseVar {
			p := new([]float64)
			*p = []float64{}
			g.Float64SliceVar(p, o.Name, o.Min, o.Max, fns...)
			return p
		}
		return g.Float64Slice(o.Name, o.Min, o.Max, fns...)
	case KStringMap:
		if o.UseVar {
			p := new(map[string]string)
			if o.PreFill {
				*p = map[string]string{"pk1": "pv1", "pk2": "pv2", "pk3": "pv3", "pk4": "pv4"}
			}
			g.StringMapVar(p, o.Name, o.Min, o.Max, fns...)
			return p
		}
		m := g.StringMap(o.Name, o.Min, o.Max, fns...)
		return m
	}
	panic("unknown kind")
}

func deref(p interface{}) interface{} {
	switch x := p.(type) {
	case *bool:
		return *x
	case *int:
		return *x
	case *string:
		return *x
	case *float64:
		return *x
	case *[]string:
		return *x
	case *[]int:
		return *x
	case *[]float64:
		return *x
	case *map[string]string:
		return *x
	case map[string]string:
		return x
	}
	return p
}

// Build turns the spec into a live definition following the documented
// declaration order: root settings, options, then commands, help command last.
// The caller must have applied spec.Env to the process environment already
// (GetEnv reads it at definition time) - use WithEnv.
func Build(spec *ProgSpec) *Built {
	b := &Built{Spec: spec, Nodes: map[string]*Node{}, Lv: spec.Levels()}
	g := getoptions.New()
	g.Self(spec.Root.Name, spec.Root.Desc)
	if !spec.ModeLate {
		g.SetMode(getoptions.Mode(spec.Mode))
	}
	g.SetUnknownMode(getoptions.UnknownMode(spec.UnknownMode))
	if spec.RequireOrder {
		g.SetRequireOrder()
	}
	if spec.MapKeysLower {
		g.SetMapKeysToLower()
	}
	root := &Node{Path: spec.Root.Name, Spec: &spec.Root, G: g, ptrs: map[string]interface{}{}}
	b.Root = root
	b.populate(root)
	if spec.Help != "" {
		var fns []getoptions.ModifyFn
		if len(spec.HelpAliases) > 0 {
			fns = append(fns, g.Alias(spec.HelpAliases...))
		}
		g.HelpCommand(spec.Help, fns...)
	}
	if spec.UnknownLate > 0 {
		g.SetUnknownMode(getoptions.UnknownMode(spec.UnknownLate - 1))
	}
	if spec.ModeLate {
		// the mode is a property of the whole parse (taken from the root at Parse time)
		g.SetMode(getoptions.Mode(spec.Mode))
	}
	return b
}

func (b *Built) populate(n *Node) {
	b.Nodes[n.Path] = n
	c := n.Spec
	g := n.G
	if n.Parent != nil {
		if c.Unset {
			g.UnsetOptions()
		}
		if c.UnknownMode > 0 {
			g.SetUnknownMode(getoptions.UnknownMode(c.UnknownMode - 1))
		}
		if c.RequireOrder {
			g.SetRequireOrder()
		}
	}
	if len(c.ArgSugg) > 0 {
		g.ArgCompletions(c.ArgSugg...)
	}
	if len(c.ArgDyn) > 0 {
		pool := c.ArgDyn
		g.ArgCompletionsFns(func(target string, prev []string, partial string) []string {
			b.DynCalls++
			var out []string
			for _, e := range pool {
				if strings.HasPrefix(e, partial) {
					out = append(out, e)
				}
			}
			return out
		})
	}
	for _, sa := range c.SynArgs {
		g.HelpSynopsisArg(sa[0], sa[1])
	}
	for i := range c.Opts {
		n.ptrs[c.Opts[i].Name] = defineOpt(g, &c.Opts[i], b)
		if len(c.Opts[i].PreSet) > 0 {
			_ = g.SetValue(c.Opts[i].Name, c.Opts[i].PreSet...)
		}
	}
	if !c.NoFn {
		path := n.Path
		g.SetCommandFn(func(ctx context.Context, opt *getoptions.GetOpt, args []string) error {
			inv := Invocation{Path: path, Args: append([]string{}, args...), ArgsNil: args == nil}
			if v, ok := ctx.Value(ctxKey{}).(*Built); ok && v == b {
				inv.CtxOK = true
			}
			inv.Seen = map[string]OptObs{}
			lv := b.Lv.Find(path)
			for _, k := range lv.VisibleKeys() {
				inv.Seen[k] = OptObs{Val: Canon(opt.Value(k)), Called: opt.Called(k), As: opt.CalledAs(k)}
			}
			b.Log = append(b.Log, inv)
			return nil
		})
	}
	for i := range c.Cmds {
		cs := &c.Cmds[i]
		cg := g.NewCommand(cs.Name, cs.Desc)
		ch := &Node{Path: n.Path + "/" + cs.Name, Spec: cs, G: cg, Parent: n, ptrs: map[string]interface{}{}}
		n.Children = append(n.Children, ch)
		b.populate(ch)
	}
}

// Outcome is everything observable after Parse (and Dispatch).
type Outcome struct {
	Panic        string            `json:"panic,omitempty"`
	ParseFailed  bool              `json:"parse_failed"`
	ParseErr     string            `json:"parse_err,omitempty"`
	IsParsing    bool              `json:"is_parsing,omitempty"`
	IsHelp       bool              `json:"is_help,omitempty"`
	Remaining    []string          `json:"remaining"`
	RemainingNil bool              `json:"remaining_nil,omitempty"`
	Writer       string            `json:"writer,omitempty"`
	Opts         map[string]OptObs `json:"opts,omitempty"`  // "path\x1fkey"
	Opts2        map[string]OptObs `json:"opts2,omitempty"` // after parsing the same command line a second time (RunOpts.Reparse)
	Dispatched   bool              `json:"dispatched,omitempty"`
	DispFailed   bool              `json:"disp_failed,omitempty"`
	DispErr      string            `json:"disp_err,omitempty"`
	DispIsHelp   bool              `json:"disp_is_help,omitempty"`
	DispIsParse  bool              `json:"disp_is_parsing,omitempty"`
	DispWriter   string            `json:"disp_writer,omitempty"`
	Inv          []Invocation      `json:"inv,omitempty"`
	HelpAfter    string            `json:"-"`
}

// OKey builds the key used in Outcome.Opts.
func OKey(path, key string) string { return path + "\x1f" + key }

// WithEnv applies env for the duration of fn and restores the previous state.
func WithEnv(env map[string]string, fn func()) {
	type saved struct {
		v  string
		ok bool
	}
	old := map[string]saved{}
	keys := make([]string, 0, len(env))
	for k := range env {
		keys = append(keys, k)
	}
	sort.Strings(keys)
	for _, k := range keys {
		v, ok := os.LookupEnv(k)
		old[k] = saved{v, ok}
		os.Setenv(k, env[k])
	}
	defer func() {
		for _, k := range keys {
			if old[k].ok {
				os.Setenv(k, old[k].v)
			} else {
				os.Unsetenv(k)
			}
		}
	}()
	fn()
}

// RunOpts selects what Run does after Parse.
type RunOpts struct {
	Dispatch bool
	Reparse  bool // after a successful Parse, parse the same command line again on the same object and observe again
}

// Observe records all option observations of the live definition.
func (b *Built) Observe() map[string]OptObs {
	out := map[string]OptObs{}
	for _, lv := range b.Lv.AllLevels() {
		n := b.Nodes[lv.Path]
		if n == nil {
			continue // help command node
		}
		for _, k := range lv.VisibleKeys() {
			o := OptObs{Val: Canon(n.G.Value(k)), Called: n.G.Called(k), As: n.G.CalledAs(k)}
			if p, ok := n.ptrs[k]; ok {
				o.Ptr = Canon(deref(p))
			}
			out[OKey(lv.Path, k)] = o
		}
	}
	return out
}

// Run builds a fresh definition from spec, parses argv (outside completion
// mode) and records the outcome. Panics are recovered into Outcome.Panic.
func Run(spec *ProgSpec, argv []string, ro RunOpts) (out *Outcome) {
	out = &Outcome{}
	env := map[string]string{"COMP_LINE": "", "ZSHELL": ""}
	for k, v := range spec.Env {
		env[k] = v
	}
	WithEnv(env, func() {
		var w bytes.Buffer
		oldW := getoptions.Writer
		getoptions.Writer = &w
		defer func() { getoptions.Writer = oldW }()
		defer func() {
			if r := recover(); r != nil {
				out.Panic = fmt.Sprint(r)
			}
		}()
		b := Build(spec)
		in := append([]string{}, argv...)
		if argv == nil {
			in = nil
		}
		rem, err := b.Root.G.Parse(in)
		out.Writer = w.String()
		w.Reset()
		out.Remaining = rem
		out.RemainingNil = rem == nil
		if err != nil {
			out.ParseFailed = true
			out.ParseErr = err.Error()
			out.IsParsing = errors.Is(err, getoptions.ErrorParsing)
			out.IsHelp = errors.Is(err, getoptions.ErrorHelpCalled)
		}
		out.Opts = b.Observe()
		if ro.Reparse && err == nil {
			in2 := append([]string{}, argv...)
			_, err2 := b.Root.G.Parse(in2)
			w.Reset()
			if err2 == nil {
				out.Opts2 = b.Observe()
			}
		}
		if ro.Dispatch && err == nil {
			out.Dispatched = true
			ctx := context.WithValue(context.Background(), ctxKey{}, b)
			derr := b.Root.G.Dispatch(ctx, rem)
			out.DispWriter = w.String()
			if derr != nil {
				out.DispFailed = true
				out.DispErr = derr.Error()
				out.DispIsHelp = errors.Is(derr, getoptions.ErrorHelpCalled)
				out.DispIsParse = errors.Is(derr, getoptions.ErrorParsing)
			}
			out.Inv = b.Log
		}
	})
	return out
}

// exitSentinel is panicked by the harness exit hook to unwind like a real exit.
type exitSentinel struct{ code int }

// CompOutcome is the observable result of a completion request.
type CompOutcome struct {
	Panic       string   `json:"panic,omitempty"`
	Out         string   `json:"out"`
	Lines       []string `json:"lines"`
	ExitCodes   []int    `json:"exit_codes"`
	Writer      string   `json:"writer,omitempty"`
	Returned    bool     `json:"returned,omitempty"` // Parse returned normally (no exit)
	Invocations int      `json:"invocations"`
	DynCalls    int      `json:"dyn_calls"`
}

// RunCompletion builds a fresh definition and calls Parse(args) with
// COMP_LINE (and ZSHELL) set; the exit hook unwinds at the first exit call.
func RunCompletion(spec *ProgSpec, compLine string, zsh bool, args []string) (out *CompOutcome) {
	out = &CompOutcome{}
	env := map[string]string{"COMP_LINE": compLine, "ZSHELL": ""}
	if zsh {
		env["ZSHELL"] = "true"
	}
	for k, v := range spec.Env {
		env[k] = v
	}
	WithEnv(env, func() {
		var w, cw bytes.Buffer
		oldW := getoptions.Writer
		getoptions.Writer = &w
		defer func() { getoptions.Writer = oldW }()
		restoreW := getoptions.VerifSetCompletionWriter(&cw)
		defer restoreW()
		restoreE := getoptions.VerifSetExitFn(func(code int) {
			out.ExitCodes = append(out.ExitCodes, code)
			panic(exitSentinel{code})
		})
		defer restoreE()
		var b *Built
		defer func() {
			out.Out = cw.String()
			out.Writer = w.String()
			if b != nil {
				out.Invocations = len(b.Log)
				out.DynCalls = b.DynCalls
			}
			s := strings.TrimSuffix(out.Out, "\n")
			if s != "" {
				out.Lines = strings.Split(s, "\n")
			}
			if r := recover(); r != nil {
				if _, ok := r.(exitSentinel); ok {
					return
				}
				out.Panic = fmt.Sprint(r)
			}
		}()
		b = Build(spec)
		_, _ = b.Root.G.Parse(args)
		out.Returned = true
	})
	return out
}

// HelpAt returns Help() of the level path on a fresh definition (finalNode unset: uses the node's own tree).
func HelpAt(spec *ProgSpec, path string) (txt string, panicked string) {
	env := map[string]string{"COMP_LINE": "", "ZSHELL": ""}
	for k, v := range spec.Env {
		env[k] = v
	}
	WithEnv(env, func() {
		defer func() {
			if r := recover(); r != nil {
				panicked = fmt.Sprint(r)
			}
		}()
		b := Build(spec)
		n := b.Nodes[path]
		if n == nil {
			panicked = "no such node " + path
			return
		}
		txt = n.G.Help()
	})
	return
}
