package cli

import (
	"fmt"
	"sort"
	"strings"
	"testing"

	"pgregory.net/rapid"

	"verif/harness/evid"
)

// C11 - required options are enforced before any command runs; help bypasses them.
// Oracle: by construction. The generator decides which required options of the
// selected level are supplied (by name, alias, unique prefix or environment
// variable) and whether/how help is requested; the expectation follows directly.

type C11Case struct {
	Spec     *ProgSpec  `json:"spec"`
	Path     []string   `json:"path"`
	Plan     []PlanItem `json:"plan"`
	Missing  []string   `json:"missing"`  // primary names of required options visible at the selected level that are not supplied
	Supplied []string   `json:"supplied"` // "name:cli" / "name:env"
	Help     string     `json:"help"`     // none | opt | alias | abbrev | cmd | cmd-topic | cmd-unknown-topic
	HelpOf   string     `json:"help_of"`  // level whose help text is expected
}

func genC11(t *rapid.T) C11Case {
	cfg := DefaultCfg()
	cfg.Required = true
	cfg.Env = true
	cfg.Help = 2
	cfg.MinCmds = 1
	cfg.MaxOpts = 4
	cfg.MinOpts = 1
	cfg.RequireOrder = 0
	cfg.NoFn = true // grouping commands (no function, only children): required options are enforced for them too, before their landing help
	cfg.UnkModes = []int{0, 1, 2}
	spec := GenProg(t, cfg)
	spec.Env = map[string]string{}
	c := C11Case{Spec: spec, Path: []string{}}
	root := spec.Levels()
	levels := []*Level{root}
	lv := root
	depth := rapid.IntRange(0, 3).Draw(t, "depth")
	for i := 0; i < depth; i++ {
		var cands []string
		for _, n := range lv.ChildSeq {
			if !lv.Children[n].IsHelpCmd {
				cands = append(cands, n)
			}
		}
		if len(cands) == 0 {
			break
		}
		n := rapid.SampledFrom(cands).Draw(t, "pathcmd")
		c.Path = append(c.Path, n)
		lv = lv.Children[n]
		levels = append(levels, lv)
	}
	L := lv
	// items per level index
	per := make([][]PlanItem, len(levels))
	place := func(vo *VisOpt, key string) {
		// a level along the path where the option is visible
		var idxs []int
		for i, l := range levels {
			if v, ok := l.Visible[key]; ok && v.Spec == vo.Spec {
				idxs = append(idxs, i)
			}
		}
		i := rapid.SampledFrom(idxs).Draw(t, "placeat")
		oc := genOcc(t, spec, levels[i], key)
		// Bundling + Pass: an undeclared letter may lead the bundle that supplies the option (`-Qr`); the token is
		// handed on as a whole and the declared letter behind it still counts
		if spec.Mode == ModeBundling && levels[i].UnknownMode == UnkPass && !levels[i].RequireOrder && oc.Dash == "-" && oc.Attach != "sd" && len([]rune(oc.Written)) == 1 && oc.Written != "-" && rapid.IntRange(0, 2).Draw(t, "unklead") == 0 {
			if k2, c2 := resolve(levels[i], "Q"); k2 == "" && len(c2) == 0 {
				oc.Lead = "Q"
			}
		}
		per[i] = append(per[i], PlanItem{Occ: oc})
	}
	for _, vo := range L.VisibleOpts() {
		o := vo.Spec
		if vo.Help {
			continue
		}
		if o.Required {
			how := rapid.SampledFrom([]string{"missing", "missing", "cli", "cli", "cli", "env"}).Draw(t, "supply")
			if how == "env" && (o.Env == "" || !(o.Kind == KBool || o.Kind.IsScalar())) {
				how = "cli"
			}
			switch how {
			case "missing":
				c.Missing = append(c.Missing, o.Name)
			case "cli":
				place(vo, rapid.SampledFrom(o.Keys()).Draw(t, "supkey"))
				c.Supplied = append(c.Supplied, o.Name+":cli")
			case "env":
				switch o.Kind.Elem() {
				case 'b':
					spec.Env[o.Env] = rapid.SampledFrom([]string{"true", "false", "TRUE", "False"}).Draw(t, "envb")
				default:
					spec.Env[o.Env] = goodValue(t, o, "envv")
				}
				c.Supplied = append(c.Supplied, o.Name+":env")
			}
		} else if rapid.IntRange(0, 3).Draw(t, "extra") == 0 {
			place(vo, rapid.SampledFrom(o.Keys()).Draw(t, "extrakey"))
		}
	}
	sort.Strings(c.Missing)
	// help request
	c.Help = rapid.SampledFrom([]string{"none", "none", "none", "opt", "alias", "abbrev", "cmd", "cmd-topic", "cmd-unknown-topic"}).Draw(t, "help")
	c.HelpOf = L.Path
	var helpLevels []int
	for i, l := range levels {
		if v, ok := l.Visible[spec.Help]; ok && v.Help {
			helpLevels = append(helpLevels, i)
		}
	}
	switch c.Help {
	case "opt", "alias", "abbrev":
		if len(helpLevels) == 0 {
			c.Help = "cmd"
			break
		}
		i := rapid.SampledFrom(helpLevels).Draw(t, "helpat")
		key := spec.Help
		if c.Help == "alias" {
			if len(spec.HelpAliases) == 0 {
				c.Help = "opt"
			} else {
				key = spec.HelpAliases[0]
			}
		}
		oc := &Occ{Level: levels[i].Path, Owner: root.Path, Name: spec.Help, Key: key, Written: key, Dash: "--"}
		if c.Help == "abbrev" {
			if ps := uniquePrefixes(levels[i], key); len(ps) > 0 {
				oc.Written = rapid.SampledFrom(ps).Draw(t, "helpabbr")
			} else {
				c.Help = "opt"
			}
		}
		if spec.Mode == ModeNormal && rapid.Bool().Draw(t, "helpsd") {
			oc.Dash = "-"
		}
		per[i] = append(per[i], PlanItem{Occ: oc})
	}
	var tail []PlanItem
	switch c.Help {
	case "cmd":
		tail = append(tail, PlanItem{Text: spec.Help, Cmd: true})
	case "cmd-topic":
		var cands []string
		for _, n := range L.ChildSeq {
			if !L.Children[n].IsHelpCmd {
				cands = append(cands, n)
			}
		}
		if len(cands) == 0 {
			c.Help = "cmd"
			tail = append(tail, PlanItem{Text: spec.Help, Cmd: true})
		} else {
			n := rapid.SampledFrom(cands).Draw(t, "topic")
			tail = append(tail, PlanItem{Text: spec.Help, Cmd: true}, PlanItem{Text: n})
			c.HelpOf = L.Children[n].Path
		}
	case "cmd-unknown-topic":
		tail = append(tail, PlanItem{Text: spec.Help, Cmd: true}, PlanItem{Text: "no-such-topic"})
	}
	for i := range levels {
		// shuffle-free: items in generation order
		c.Plan = append(c.Plan, per[i]...)
		if i < len(c.Path) {
			c.Plan = append(c.Plan, PlanItem{Text: c.Path[i], Cmd: true})
		}
	}
	c.Plan = append(c.Plan, tail...)
	return c
}

func checkC11(c C11Case, st *evid.Stats) error {
	argv := renderPlan(c.Plan, false, c.Spec.Mode)
	root := c.Spec.Levels()
	L := root
	for _, n := range c.Path {
		L = L.Children[n]
		if L == nil {
			return failf("harness: bad path")
		}
	}
	finalPath := L.Path
	if strings.HasPrefix(c.Help, "cmd") {
		finalPath = L.Path + "/" + c.Spec.Help
	}
	m := Model(c.Spec, argv)
	if m.Unspecified != "" {
		st.Exclude("unspecified: " + m.Unspecified)
		return nil
	}
	for _, cs := range m.Causes {
		if cs != "required" {
			st.Exclude("another error source in the plan: " + cs)
			return nil
		}
	}
	if m.Final != finalPath {
		st.Exclude("plan does not lead to the intended level (token swallowed as a value)")
		return nil
	}
	planned := map[string]int{}
	for _, it := range c.Plan {
		if it.Occ != nil {
			planned[OKey(it.Occ.Owner, it.Occ.Name)]++
		}
	}
	for k, h := range m.Hits {
		if planned[k] != len(h) {
			st.Exclude("plan occurrences are not what the model resolves")
			return nil
		}
	}
	for k, n := range planned {
		if len(m.Hits[k]) != n {
			st.Exclude("plan occurrences are not what the model resolves")
			return nil
		}
	}
	out := Run(c.Spec, argv, RunOpts{Dispatch: true})
	st.Eval()
	if out.Panic != "" {
		return failf("panic: %s", out.Panic)
	}
	st.Class("help:" + c.Help)
	st.Class(fmt.Sprintf("missing:%d", min(len(c.Missing), 3)))
	st.Class(fmt.Sprintf("depth:%d", len(c.Path)))
	nreq := len(c.Missing) + len(c.Supplied)
	if (len(c.Missing) > 0 && len(c.Supplied) > 0 && nreq >= 2) || (c.Help != "none" && len(c.Path) >= 1 && len(c.Missing) > 0) {
		if st.NT(fmt.Sprintf("%d|%v|%v|%s|%d", len(c.Path), c.Missing, c.Supplied, c.Help, c.Spec.Mode)) {
			st.Sample(map[string]interface{}{"argv": Toks(argv), "env": c.Spec.Env, "selected": L.Path, "missing_required": c.Missing, "supplied": c.Supplied, "help": c.Help})
		}
	}
	ctx := fmt.Sprintf("argv=%s env=%v selected=%s missing=%v supplied=%v help=%s", q(argv), c.Spec.Env, L.Path, c.Missing, c.Supplied, c.Help)
	if len(out.Inv) > 1 {
		return failf("%d user functions invoked; %s", len(out.Inv), ctx)
	}
	switch {
	case c.Help == "cmd-unknown-topic":
		if out.ParseFailed {
			return failf("Parse failed: %s; %s", out.ParseErr, ctx)
		}
		if !out.DispFailed || out.DispIsHelp {
			return failf("unknown help topic must be answered with an error (got err=%q, help-called=%v); %s", out.DispErr, out.DispIsHelp, ctx)
		}
		if len(out.Inv) != 0 {
			return failf("user function %s ran on a help request; %s", out.Inv[0].Path, ctx)
		}
	case c.Help != "none":
		if out.ParseFailed {
			return failf("help requested but Parse failed: %s; %s", out.ParseErr, ctx)
		}
		if !out.DispIsHelp {
			return failf("help requested but Dispatch returned %q (want ErrorHelpCalled); %s", out.DispErr, ctx)
		}
		if len(out.Inv) != 0 {
			return failf("user function %s ran on a help request; %s", out.Inv[0].Path, ctx)
		}
		want, pan := HelpAt(c.Spec, c.HelpOf)
		if pan != "" {
			return failf("panic in Help(): %s", pan)
		}
		if out.DispWriter != want {
			return failf("help request wrote\n%q\nwant the help of level %s:\n%q\n%s", out.DispWriter, c.HelpOf, want, ctx)
		}
	case len(c.Missing) > 0:
		var errText string
		var isParsing bool
		switch {
		case out.ParseFailed:
			errText, isParsing = out.ParseErr, out.IsParsing
		case out.DispFailed:
			errText, isParsing = out.DispErr, out.DispIsParse
		default:
			return failf("required option(s) %v not supplied yet neither Parse nor Dispatch returned an error; invoked=%d; %s", c.Missing, len(out.Inv), ctx)
		}
		if len(out.Inv) != 0 {
			return failf("user function %s ran although required option(s) %v are missing; %s", out.Inv[0].Path, c.Missing, ctx)
		}
		if !isParsing {
			return failf("error %q for missing required option does not satisfy errors.Is(err, ErrorParsing); %s", errText, ctx)
		}
		found := false
		for _, n := range c.Missing {
			o := L.Visible[n].Spec
			want := o.Name
			if o.RequiredMsg != "" {
				want = o.RequiredMsg
			}
			if strings.Contains(errText, want) {
				found = true
			}
		}
		if !found {
			return failf("error %q carries neither the custom message nor the name of any missing required option %v; %s", errText, c.Missing, ctx)
		}
	default:
		if out.ParseFailed {
			return failf("all required options supplied but Parse failed: %s; %s", out.ParseErr, ctx)
		}
		if out.DispIsParse {
			return failf("all required options supplied but Dispatch returned a parsing error %q; %s", out.DispErr, ctx)
		}
		if !L.Spec.NoFn {
			if len(out.Inv) != 1 || out.Inv[0].Path != L.Path {
				return failf("all required options supplied: want exactly one invocation of %s, got %d; dispatch error %q; %s", L.Path, len(out.Inv), out.DispErr, ctx)
			}
		}
	}
	return nil
}

var propC11 = &Prop[C11Case]{ID: "C11", Sub: "required",
	Rule:  "rapid: trees with required options (custom message or not) own and inherited at depth 0-3, env bindings, help command+option(+alias) always declared; the plan supplies a random subset of the required options visible at the selected level by name/alias/unique prefix (at any level along the path) or through the environment, plus optional extras, and requests help by option/alias/abbreviation at any level, help command, help <topic>, help <unknown topic>, or not at all; Parse+Dispatch with instrumented CommandFns; non-trivial = >=2 required options with a proper non-empty subset supplied, or help requested at depth>=1 while something required is missing; distinct by (depth, missing, supplied+channel, help channel, mode)",
	Gen:   genC11,
	Check: checkC11,
}

func init() { propC11.Register() }

func TestC11_required(t *testing.T) { propC11.Run(t) }
