package cli

import (
	"fmt"
	"strings"
	"testing"

	"pgregory.net/rapid"

	"verif/harness/evid"
)

// C06 - aliases interchangeable, Called/CalledAs exact, untouched options keep defaults.

// Occ is one written occurrence of an option.
type Occ struct {
	Level   string   `json:"level"`   // level path at which it is written
	Owner   string   `json:"owner"`   // owning level of the option
	Name    string   `json:"name"`    // primary name
	Key     string   `json:"key"`     // name or alias addressed
	Written string   `json:"written"` // Key or a unique prefix of it
	Dash    string   `json:"dash"`
	Attach  string   `json:"attach"` // "", "=" or "sd" (SingleDash -xREST)
	Val     string   `json:"val,omitempty"`
	Rest    []string `json:"rest,omitempty"` // detached values
	Lead    string   `json:"lead,omitempty"` // Bundling mode: an undeclared letter leading the bundle (`-Qx`), Pass mode only
}

type PlanItem struct {
	Occ  *Occ   `json:"occ,omitempty"`
	Text string `json:"text,omitempty"` // positional or command token
	Cmd  bool   `json:"cmd,omitempty"`
}

type C06Case struct {
	Spec *ProgSpec  `json:"spec"`
	Plan []PlanItem `json:"plan"`
}

func renderPlan(plan []PlanItem, primary bool, mode int) []string {
	out := []string{}
	for _, it := range plan {
		if it.Occ == nil {
			out = append(out, it.Text)
			continue
		}
		o := it.Occ
		name, dash, attach := o.Written, o.Dash, o.Attach
		if primary {
			name = o.Name
			if dash == "" {
				dash = "--" // occurrence written as the lonesome dash alias
			}
			if len([]rune(name)) > 1 && attach != "sd" {
				dash = "--" // canonical spelling of a multi-letter primary name (in Normal mode -name and --name are the same option)
			}
			if mode != ModeNormal && len([]rune(name)) > 1 {
				dash = "--"
				if attach == "sd" {
					attach = "="
				}
			}
		}
		tok := dash + name
		if o.Lead != "" && !primary && dash == "-" {
			tok = dash + o.Lead + name
		}
		switch attach {
		case "=":
			tok += "=" + o.Val
		case "sd":
			tok += o.Val
		}
		if name == "-" {
			tok = "-"
		}
		out = append(out, tok)
		out = append(out, o.Rest...)
	}
	return out
}

func goodValue(t *rapid.T, o *OptSpec, label string) string {
	if len(o.Valid) > 0 {
		return rapid.SampledFrom(o.Valid).Draw(t, label+"_valid")
	}
	switch o.Kind.Elem() {
	case 'i':
		return rapid.SampledFrom([]string{"0", "7", "42", "+3", "007"}).Draw(t, label)
	case 'f':
		return rapid.SampledFrom([]string{"0", "1.5", "2e3", ".5", "Inf"}).Draw(t, label)
	case 'm':
		return rapid.SampledFrom([]string{"k=v", "a=b", "k=v2", "x=y=z"}).Draw(t, label)
	}
	return rapid.SampledFrom([]string{"foo", "bar", "a b", "x=y", "list", "é", ":8080", "=x", "::1", "a:b", "k=:v"}).Draw(t, label)
}

func genOcc(t *rapid.T, spec *ProgSpec, lv *Level, key string) *Occ {
	vo := lv.Visible[key]
	o := vo.Spec
	oc := &Occ{Level: lv.Path, Owner: vo.Owner, Name: o.Name, Key: key, Written: key, Dash: "--"}
	if rapid.IntRange(0, 3).Draw(t, "abbr") == 0 {
		if ps := uniquePrefixes(lv, key); len(ps) > 0 {
			oc.Written = rapid.SampledFrom(ps).Draw(t, "abbrp")
		}
	}
	single := len([]rune(oc.Written)) == 1
	if (spec.Mode == ModeNormal && rapid.IntRange(0, 2).Draw(t, "sd") == 0) || (spec.Mode != ModeNormal && single && rapid.Bool().Draw(t, "sd1")) {
		oc.Dash = "-"
	}
	if key == "-" {
		oc.Written, oc.Dash = "-", ""
		return oc
	}
	if o.Kind.IsFlag() {
		return oc
	}
	attach := rapid.Bool().Draw(t, "attach")
	if oc.Dash == "-" && spec.Mode == ModeSingleDash && single && attach {
		oc.Attach = "sd"
		oc.Val = goodValue(t, o, "v")
		return oc
	}
	n := 0
	if attach {
		oc.Attach = "="
		oc.Val = goodValue(t, o, "v")
		n = 1
	}
	switch {
	case o.Kind.IsMandatoryScalar():
		if n == 0 {
			oc.Rest = append(oc.Rest, goodValue(t, o, "dv"))
		}
	case o.Kind.IsOptional():
		if n == 0 && rapid.Bool().Draw(t, "optv") {
			oc.Rest = append(oc.Rest, goodValue(t, o, "dv"))
		}
	case o.Kind.IsMulti():
		want := rapid.IntRange(o.Min, o.Max).Draw(t, "nv")
		for ; n < want; n++ {
			oc.Rest = append(oc.Rest, goodValue(t, o, "mv"))
		}
	}
	return oc
}

func genC06(t *rapid.T) C06Case {
	cfg := DefaultCfg()
	cfg.MaxOpts = 6
	cfg.MinOpts = 2
	cfg.RequireOrder = 0
	cfg.SetCalled = true
	cfg.Valid = true
	cfg.Env = true
	cfg.UnkModes = []int{0, 1, 2}
	spec := GenProg(t, cfg)
	spec.Env = map[string]string{}
	spec.Walk(func(path string, cs *CmdSpec, _ []*CmdSpec) {
		for i := range cs.Opts {
			o := &cs.Opts[i]
			if o.Env == "" || rapid.IntRange(0, 2).Draw(t, "envset") > 0 {
				continue
			}
			if o.Kind == KBool {
				spec.Env[o.Env] = rapid.SampledFrom([]string{"true", "false", "TRUE", "False"}).Draw(t, "envb")
			} else {
				spec.Env[o.Env] = goodValue(t, o, "envv")
			}
		}
	})
	// rarely used but legal: keys of map options are lower-cased (program-wide setting), and a map option may have
	// been given entries through SetValue before Parse; pointer, Value() and every key must keep agreeing
	spec.MapKeysLower = rapid.IntRange(0, 2).Draw(t, "mapkeyslower") == 0
	spec.Walk(func(path string, cs *CmdSpec, _ []*CmdSpec) {
		for i := range cs.Opts {
			if cs.Opts[i].Kind == KStringMap && rapid.Bool().Draw(t, "preset") {
				cs.Opts[i].PreSet = []string{"MixedKey=pre", "lower=pre2"}
			}
		}
	})
	c := C06Case{Spec: spec}
	lv := spec.Levels()
	n := rapid.IntRange(0, 7).Draw(t, "nitems")
	for i := 0; i < n; i++ {
		keys := lv.VisibleKeys()
		r := rapid.IntRange(0, 9).Draw(t, "item")
		switch {
		case r < 6 && len(keys) > 0:
			key := rapid.SampledFrom(keys).Draw(t, "key")
			// prefer an alias of the drawn option when it has one
			if al := lv.Visible[key].Spec.Aliases; len(al) > 0 && rapid.IntRange(0, 3).Draw(t, "usealias") > 0 {
				key = rapid.SampledFrom(al).Draw(t, "aliaskey")
			}
			oc := genOcc(t, spec, lv, key)
			// Bundling + Pass/Warn: an undeclared letter may lead the bundle that names the option (`-Qr`); the token is
			// handed on as a whole and the declared letter behind it is still given on the command line
			if spec.Mode == ModeBundling && lv.UnknownMode != UnkFail && !lv.RequireOrder && oc.Dash == "-" && oc.Attach != "sd" && len([]rune(oc.Written)) == 1 && oc.Written != "-" && rapid.IntRange(0, 2).Draw(t, "unklead") == 0 {
				if k2, c2 := resolve(lv, "Q"); k2 == "" && len(c2) == 0 {
					oc.Lead = "Q"
				}
			}
			c.Plan = append(c.Plan, PlanItem{Occ: oc})
		case r < 8:
			w := rapid.SampledFrom([]string{"foo", "bar", "baz", "", "k=v", "1"}).Draw(t, "word")
			if _, isCmd := lv.Children[w]; isCmd {
				w = "foo"
			}
			c.Plan = append(c.Plan, PlanItem{Text: w})
		default:
			var cands []string
			for _, cn := range lv.ChildSeq {
				if !lv.Children[cn].IsHelpCmd {
					cands = append(cands, cn)
				}
			}
			if len(cands) > 0 {
				cn := rapid.SampledFrom(cands).Draw(t, "cmd")
				c.Plan = append(c.Plan, PlanItem{Text: cn, Cmd: true})
				lv = lv.Children[cn]
			}
		}
	}
	return c
}

func checkC06(c C06Case, st *evid.Stats) error {
	mode := c.Spec.Mode
	argvA := renderPlan(c.Plan, false, mode)
	argvB := renderPlan(c.Plan, true, mode)
	m := Model(c.Spec, argvA)
	if m.Unspecified != "" {
		st.Exclude("unspecified: " + m.Unspecified)
		return nil
	}
	if m.Fail {
		st.Exclude("plan does not parse in the model: " + strings.Join(m.Causes, "+"))
		return nil
	}
	// the model must see exactly the planned occurrences (generation aid only)
	planned := map[string]int{}
	last := map[string]string{}
	for _, it := range c.Plan {
		if it.Occ != nil {
			k := OKey(it.Occ.Owner, it.Occ.Name)
			planned[k]++
			last[k] = it.Occ.Key
		}
	}
	for k, n := range planned {
		if len(m.Hits[k]) != n {
			st.Exclude("plan occurrences are not what the model resolves (value swallowed / accidental match)")
			return nil
		}
	}
	for k, h := range m.Hits {
		if planned[k] != len(h) {
			st.Exclude("plan occurrences are not what the model resolves (value swallowed / accidental match)")
			return nil
		}
	}
	A := Run(c.Spec, argvA, RunOpts{})
	B := Run(c.Spec, argvB, RunOpts{})
	st.Eval()
	if A.Panic != "" || B.Panic != "" {
		return failf("panic: %s %s", A.Panic, B.Panic)
	}
	if A.ParseFailed {
		return failf("Parse(%s) failed: %s", q(argvA), A.ParseErr)
	}
	if B.ParseFailed {
		return failf("same command line with primary names, Parse(%s), failed: %s", q(argvB), B.ParseErr)
	}
	// (1) alias == primary except CalledAs
	aliasUsed, multiAlias := 0, 0
	for _, it := range c.Plan {
		if it.Occ != nil && it.Occ.Key != it.Occ.Name {
			aliasUsed++
		}
	}
	for k, va := range A.Opts {
		vb := B.Opts[k]
		va.As, vb.As = "", ""
		if va != vb {
			return failf("alias spelling differs from primary-name spelling at %s: %+v vs %+v (argv %s vs %s)", strings.ReplaceAll(k, "\x1f", ":"), va, vb, q(argvA), q(argvB))
		}
	}
	// a bundle led by an undeclared letter is handed on as a whole (Pass/Warn): only the first spelling has it
	leadToks := map[string]bool{}
	for _, it := range c.Plan {
		if it.Occ != nil && it.Occ.Lead != "" {
			leadToks["-"+it.Occ.Lead] = true
		}
	}
	if len(leadToks) > 0 {
		st.Class("bundle-led-by-an-undeclared-letter")
		var kept []string
		for _, r := range A.Remaining {
			if len(r) < 2 || !leadToks[r[:2]] {
				kept = append(kept, r)
			}
		}
		A.Remaining = kept
	}
	if !eqStrs(A.Remaining, B.Remaining) {
		return failf("alias vs primary spelling: remaining %s vs %s", q(A.Remaining), q(B.Remaining))
	}
	// (1b) Called / CalledAs describe the command line (and environment, SetCalled), not the number of Parse calls:
	// parsing the same command line again on the same object must leave them as they are
	if R := Run(c.Spec, argvA, RunOpts{Reparse: true}); R.Panic == "" && !R.ParseFailed && R.Opts2 != nil {
		st.Class("parsed-twice")
		for k, v1 := range R.Opts {
			v2 := R.Opts2[k]
			if v1.Called != v2.Called || v1.As != v2.As {
				return failf("after parsing the same command line a second time on the same object, %s reports Called=%v CalledAs=%q (first Parse: Called=%v CalledAs=%q); argv %s env %v", strings.ReplaceAll(k, "\x1f", ":"), v2.Called, v2.As, v1.Called, v1.As, q(argvA), c.Spec.Env)
			}
		}
	}
	// (2)-(4) per option, at every level where it is visible, through every key
	lv := c.Spec.Levels()
	untouchedKinds := map[Kind]bool{}
	for _, l := range lv.AllLevels() {
		if l.IsHelpCmd {
			continue
		}
		for _, k := range l.VisibleKeys() {
			vo := l.Visible[k]
			o := vo.Spec
			id := OKey(vo.Owner, o.Name)
			got := A.Opts[OKey(l.Path, k)]
			envSet := o.Env != "" && c.Spec.Env[o.Env] != ""
			if len(o.Aliases) >= 2 {
				multiAlias++
			}
			if got.Ptr != "" && got.Ptr != got.Val {
				return failf("option %q: Value() = %s but pointer/Var target = %s", o.Name, got.Val, got.Ptr)
			}
			if planned[id] > 0 {
				if !got.Called {
					return failf("option %q was given %d times on the command line but Called(%q) at %s is false", o.Name, planned[id], k, l.Path)
				}
				if got.As != last[id] {
					return failf("CalledAs(%q) at %s = %q, want %q (the name/alias last used, full name when abbreviated); argv %s", k, l.Path, got.As, last[id], q(argvA))
				}
				continue
			}
			if envSet {
				// supplied through its environment variable only: called, and CalledAs is the variable's name
				st.Class("env-supplied-untouched")
				if !got.Called {
					return failf("option %q supplied through %s=%q: Called(%q) at %s is false", o.Name, o.Env, c.Spec.Env[o.Env], k, l.Path)
				}
				if got.As != o.Env {
					return failf("option %q supplied through its environment variable: CalledAs(%q) at %s = %q, want the variable's name %q", o.Name, k, l.Path, got.As, o.Env)
				}
				continue
			}
			untouchedKinds[o.Kind] = true
			if got.Called != o.SetCalled {
				return failf("option %q not mentioned on the command line: Called(%q) at %s = %v, want %v; argv %s", o.Name, k, l.Path, got.Called, o.SetCalled, q(argvA))
			}
			if len(o.PreSet) == 0 && got.Val != o.DefaultCanon() {
				return failf("option %q not mentioned on the command line reads %s at %s, declared default %s; argv %s", o.Name, got.Val, l.Path, o.DefaultCanon(), q(argvA))
			}
			if got.As != "" {
				return failf("option %q not mentioned: CalledAs = %q", o.Name, got.As)
			}
		}
	}
	if aliasUsed >= 1 && len(untouchedKinds) >= 2 {
		sig := []string{}
		for _, it := range c.Plan {
			if it.Occ != nil {
				sig = append(sig, fmt.Sprintf("%s>%s/%s%s", it.Occ.Name, it.Occ.Written, it.Occ.Dash, it.Occ.Attach))
			} else if it.Cmd {
				sig = append(sig, "C")
			} else {
				sig = append(sig, "T")
			}
		}
		if st.NT(strings.Join(sig, ",") + modeNames[mode]) {
			st.Sample(map[string]interface{}{"argv_alias": Toks(argvA), "argv_primary": Toks(argvB), "mode": modeNames[mode]})
		}
	}
	st.Class(fmt.Sprintf("alias-occurrences:%d", min(aliasUsed, 3)))
	return nil
}

var propC06 = &Prop[C06Case]{ID: "C06", Sub: "alias",
	Rule:  "rapid: definitions with 0-3 aliases per option (12 kinds, Var and pointer forms, SetCalled) x structured argv plan where every occurrence picks a name/alias/unique prefix, dash style and attach form; run 1 = as written, run 2 = every occurrence rewritten to the primary name; plus by-construction Called/CalledAs/default expectations for every option at every level through every key; non-trivial = >=1 alias occurrence and >=2 untouched options of different kinds; distinct by occurrence pattern + mode",
	Gen:   genC06,
	Check: checkC06,
}

func init() { propC06.Register() }

func TestC06_alias(t *testing.T) { propC06.Run(t) }
