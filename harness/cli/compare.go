package cli

import (
	"fmt"
	"strings"
)

// CompareOpts selects which parts of the model verdict are asserted.
type CompareOpts struct {
	Values    bool // option values / Called / CalledAs on success
	Remaining bool
	ErrText   bool // names the error must mention when there is a single cause
	Warnings  bool
}

// isSubsequence reports whether sub can be obtained from full by deleting tokens (byte equality, order kept).
func isSubsequence(sub, full []string) bool {
	j := 0
	for _, s := range sub {
		for j < len(full) && full[j] != s {
			j++
		}
		if j == len(full) {
			return false
		}
		j++
	}
	return true
}

// compareWithModel checks the real outcome against the model's expectation.
func compareWithModel(spec *ProgSpec, argv []string, exp *Expected, out *Outcome, co CompareOpts) error {
	if out.Panic != "" {
		return failf("panic: %s", out.Panic)
	}
	if exp.Fail != out.ParseFailed {
		if exp.Fail {
			return failf("Parse succeeded (remaining %s) but the documented semantics require an error (%s)", q(out.Remaining), strings.Join(exp.Causes, "+"))
		}
		return failf("Parse failed with %q but the documented semantics accept this command line (expected remaining %s)", out.ParseErr, q(exp.Remaining))
	}
	if exp.Fail {
		if !out.RemainingNil {
			return failf("failed Parse returned non-nil remaining %s", q(out.Remaining))
		}
		if co.ErrText && len(exp.Causes) == 1 {
			switch exp.Causes[0] {
			case "unknown":
				if len(exp.ErrNames) == 1 && !strings.Contains(out.ParseErr, exp.ErrNames[0]) {
					return failf("unknown-option error %q does not name the first unknown option %q", out.ParseErr, exp.ErrNames[0])
				}
			case "ambiguous":
				for _, n := range exp.ErrNames {
					if !strings.Contains(out.ParseErr, n) {
						return failf("ambiguity error %q does not list candidate %q (all: %v)", out.ParseErr, n, exp.ErrNames)
					}
				}
			case "required":
				if !out.IsParsing {
					return failf("missing required option error %q does not satisfy errors.Is(err, ErrorParsing)", out.ParseErr)
				}
				found := false
				for _, n := range exp.ErrNames {
					if strings.Contains(out.ParseErr, n) {
						found = true
					}
				}
				if !found {
					return failf("missing required option error %q mentions none of %v", out.ParseErr, exp.ErrNames)
				}
			}
		}
		return nil
	}
	if co.Remaining {
		if !eqStrs(out.Remaining, exp.Remaining) {
			return failf("remaining = %s, want %s", q(out.Remaining), q(exp.Remaining))
		}
	}
	if co.Values {
		lv := spec.Levels()
		for _, l := range lv.AllLevels() {
			if l.IsHelpCmd {
				continue
			}
			for _, k := range l.VisibleKeys() {
				vo := l.Visible[k]
				e := exp.Opts[OKey(vo.Owner, vo.Spec.Name)]
				g, ok := out.Opts[OKey(l.Path, k)]
				if e == nil || !ok {
					return failf("harness: missing observation/expectation for %s at %s", k, l.Path)
				}
				if g.Val != e.Val {
					return failf("option %q (%s) read through key %q at level %s = %s, want %s", vo.Spec.Name, vo.Spec.Kind, k, l.Path, g.Val, e.Val)
				}
				if g.Ptr != "" && g.Ptr != e.Val {
					return failf("option %q (%s) pointer/Var target = %s, want %s", vo.Spec.Name, vo.Spec.Kind, g.Ptr, e.Val)
				}
				if !e.CalledLoose {
					if g.Called != e.Called {
						return failf("Called(%q) at level %s = %v, want %v", k, l.Path, g.Called, e.Called)
					}
					if g.As != e.As {
						return failf("CalledAs(%q) at level %s = %q, want %q", k, l.Path, g.As, e.As)
					}
				}
			}
		}
	}
	if co.Warnings {
		for _, n := range exp.Warn {
			if !strings.Contains(out.Writer, n) {
				return failf("Warn mode: Writer output %q does not mention unknown option %q", out.Writer, n)
			}
		}
		if len(exp.Warn) == 0 && out.Writer != "" {
			return failf("no unknown option to warn about, yet Parse wrote to Writer: %q", out.Writer)
		}
	}
	return nil
}

func describeCase(spec *ProgSpec, argv []string) string {
	return fmt.Sprintf("mode=%s unknown=%s require_order=%v argv=%s", modeNames[spec.Mode], unkNames[spec.UnknownMode], spec.RequireOrder, q(argv))
}
