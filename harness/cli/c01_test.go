package cli

import (
	"fmt"
	"regexp"
	"strconv"
	"strings"
	"testing"

	"pgregory.net/rapid"

	"verif/harness/evid"
)

// C01 - scalar option values reach the program exactly as written.
// Oracle: by construction (the value text written is known) + strconv as the
// conversion specification named by the statement. The reference model is only
// used as a soundness filter for the surrounding tokens.

type C01Case struct {
	Spec  *ProgSpec `json:"spec"`
	Argv  Toks      `json:"argv"`
	Level string    `json:"level"` // level at which the focus occurrences stand
	Name  string    `json:"name"`  // focus option (defined on the root)
	Form  string    `json:"form"`  // attached | detached | flag | optional-novalue | sd-attached
	V     BS        `json:"v"`
	N     int       `json:"n"` // occurrences (flags)
	Kinds []string  `json:"kinds,omitempty"`
	Idx   []int     `json:"idx"` // argv indices of the focus option tokens
}

var focusPool = []string{"focus", "fo", "target", "tgt", "w", "W", "ü", "üb", "zeta", "Z", "wert"}

func allKeys(p *ProgSpec) map[string]bool {
	used := map[string]bool{}
	p.Walk(func(path string, c *CmdSpec, _ []*CmdSpec) {
		for i := range c.Opts {
			for _, k := range c.Opts[i].Keys() {
				used[k] = true
			}
		}
	})
	if p.Help != "" {
		used[p.Help] = true
		for _, a := range p.HelpAliases {
			used[a] = true
		}
	}
	return used
}

// addFocus appends a focus option to the root with names unused anywhere in the tree.
func addFocus(t *rapid.T, p *ProgSpec, kinds []Kind) *OptSpec {
	used := allKeys(p)
	pick := func(label string) string {
		for try := 0; try < 30; try++ {
			n := rapid.SampledFrom(focusPool).Draw(t, label)
			if !used[n] {
				used[n] = true
				return n
			}
		}
		for i := 0; ; i++ {
			n := "focus" + strconv.Itoa(i)
			if !used[n] {
				used[n] = true
				return n
			}
		}
	}
	o := OptSpec{Kind: rapid.SampledFrom(kinds).Draw(t, "fkind"), Name: pick("fname")}
	na := rapid.IntRange(0, 2).Draw(t, "fnalias")
	for i := 0; i < na; i++ {
		o.Aliases = append(o.Aliases, pick("falias"))
	}
	o.UseVar = rapid.Bool().Draw(t, "fusevar")
	switch o.Kind {
	case KBool:
		o.DefBool = rapid.Bool().Draw(t, "fdefb")
	case KIncrement, KInt, KIntOpt:
		o.DefInt = rapid.SampledFrom([]int{0, 1, -3, 99}).Draw(t, "fdefi")
	case KFloat, KFloatOpt:
		o.DefFloat = rapid.SampledFrom([]float64{0, 1.5, -2.25}).Draw(t, "fdeff")
	case KString, KStringOpt:
		o.DefStr = rapid.SampledFrom([]string{"", "dflt", "d=f"}).Draw(t, "fdefs")
	default:
		o.Min = rapid.IntRange(1, 3).Draw(t, "fmin")
		o.Max = o.Min + rapid.IntRange(0, 3).Draw(t, "fmaxd")
	}
	p.Root.Opts = append(p.Root.Opts, o)
	return &p.Root.Opts[len(p.Root.Opts)-1]
}

// safeArgvCfg generates surroundings that parse successfully on their own.
func safeArgvCfg() ArgvCfg {
	return ArgvCfg{MaxItems: 4, Unknown: 0, Term: 0, Hostile: 0, Commands: 2, Positional: 3, Known: 6, BadValues: 0, Abbrev: true, DashValues: true, MissingVals: 0}
}

func spellKey(t *rapid.T, l *Level, o *OptSpec) string {
	key := rapid.SampledFrom(o.Keys()).Draw(t, "fkey")
	if rapid.IntRange(0, 3).Draw(t, "fabbr") == 0 {
		if ps := uniquePrefixes(l, key); len(ps) > 0 {
			return rapid.SampledFrom(ps).Draw(t, "fabbrp")
		}
	}
	return key
}

func genC01(t *rapid.T) C01Case {
	cfg := DefaultCfg()
	cfg.RequireOrder = 0
	cfg.Valid = true
	spec := GenProg(t, cfg)
	scalarKinds := []Kind{KBool, KIncrement, KString, KString, KInt, KInt, KFloat, KFloat, KStringOpt, KIntOpt, KFloatOpt}
	fo := addFocus(t, spec, scalarKinds)
	c := C01Case{Spec: spec, Name: fo.Name}
	acfg := safeArgvCfg()
	if rapid.IntRange(0, 5).Draw(t, "withro") == 0 {
		// require-order does not change how options and their values are read before the stop token
		spec.RequireOrder = true
		acfg.Positional = 0
	}
	a := NewArgvGen(t, spec, acfg)
	a.Exclude = fo
	a.AvoidLevel = func(l *Level) bool {
		_, ok := l.Visible[fo.Name]
		return !ok
	}
	pre := rapid.IntRange(0, 3).Draw(t, "npre")
	for i := 0; i < pre; i++ {
		a.Step()
	}
	lv := a.Cur()
	c.Level = lv.Path
	dash := func(key string) string {
		if spec.Mode == ModeNormal && rapid.IntRange(0, 3).Draw(t, "fsd") == 0 {
			return "-" + key
		}
		return "--" + key
	}
	// In Bundling mode with Pass/Warn an undeclared letter may lead the bundle that holds the focus letter:
	// the token is handed on as a whole and the declared letters behind it still count.
	unkLead := func() string {
		if spec.Mode != ModeBundling || spec.UnknownMode == UnkFail || rapid.IntRange(0, 2).Draw(t, "funklead") != 0 {
			return ""
		}
		for _, l := range []string{"Q", "W", "Z"} {
			if key, cands := resolve(a.Cur(), l); key == "" && len(cands) == 0 {
				return l
			}
		}
		return ""
	}
	elem := fo.Kind.Elem()
	valueText := func(detached bool) string {
		var pool []string
		switch elem {
		case 's':
			pool = strValPool
		case 'i':
			pool = append(append([]string{}, intValid...), intValid...)
			pool = append(pool, intInvalid...)
		case 'f':
			pool = append(append([]string{}, floatValid...), floatValid...)
			pool = append(pool, floatInvalid...)
		}
		for try := 0; try < 50; try++ {
			var v string
			if rapid.IntRange(0, 9).Draw(t, "frandv") == 0 {
				v = string(rapid.SliceOfN(rapid.Byte(), 1, 12).Draw(t, "fbytes"))
			} else {
				v = rapid.SampledFrom(pool).Draw(t, "fv")
			}
			if v == "" {
				continue
			}
			if detached && strings.HasPrefix(v, "-") {
				continue
			}
			return v
		}
		return "fallback"
	}
	switch {
	case fo.Kind.IsFlag():
		c.Form = "flag"
		c.N = rapid.IntRange(0, 5).Draw(t, "fn")
		for i := 0; i < c.N; i++ {
			c.Idx = append(c.Idx, len(a.Argv))
			if spec.Mode == ModeBundling && rapid.IntRange(0, 2).Draw(t, "fbundle") == 0 {
				// repeated letter in one bundle: -www counts three occurrences
				var single string
				for _, k := range fo.Keys() {
					if len([]rune(k)) == 1 {
						single = k
					}
				}
				rep := rapid.IntRange(1, 3).Draw(t, "frep")
				if single != "" && i+rep <= c.N {
					for r := 1; r < rep; r++ {
						c.Idx = append(c.Idx, len(a.Argv)) // one hit per letter, all on this token
					}
					a.Push("focus", "-"+unkLead()+strings.Repeat(single, rep))
					i += rep - 1
					continue
				}
			}
			a.Push("focus", dash(spellKey(t, a.Cur(), fo)))
			if rapid.Bool().Draw(t, "between") {
				a.Step()
				if a.Cur() != lv {
					lv = a.Cur()
				}
			}
		}
		c.Level = a.Cur().Path
	default:
		forms := []string{"attached", "attached", "detached", "detached"}
		if fo.Kind.IsOptional() {
			forms = append(forms, "optional-novalue", "optional-novalue")
		}
		key := spellKey(t, lv, fo)
		c.Idx = append(c.Idx, len(a.Argv))
		if spec.Mode == ModeSingleDash && len([]rune(key)) == 1 {
			forms = append(forms, "sd-attached")
		}
		c.Form = rapid.SampledFrom(forms).Draw(t, "fform")
		switch c.Form {
		case "attached":
			v := valueText(false)
			c.V = BS(v)
			if ul := unkLead(); ul != "" && len([]rune(key)) == 1 {
				a.Push("focus", "-"+ul+key+"="+v)
			} else {
				a.Push("focus", dash(key)+"="+v)
			}
		case "sd-attached":
			v := valueText(false)
			c.V = BS(v)
			a.Push("focus", "-"+key+v)
		case "detached":
			v := valueText(true)
			c.V = BS(v)
			a.Push("focus", dash(key), v)
		case "optional-novalue":
			a.Push("focus", dash(key))
			// follower: end of input, an option-looking token, or the terminator
			switch rapid.IntRange(0, 2).Draw(t, "ffollow") {
			case 0:
				c.Argv = a.Argv
				c.Kinds = a.Kinds
				return c
			case 1:
				var flags []string
				for _, k := range lv.VisibleKeys() {
					if lv.Visible[k].Spec.Kind.IsFlag() && lv.Visible[k].Spec != fo && k != "-" {
						flags = append(flags, k)
					}
				}
				if len(flags) == 0 {
					c.Argv = a.Argv
					c.Kinds = a.Kinds
					return c
				}
				a.Push("known:flag", "--"+rapid.SampledFrom(flags).Draw(t, "fflag"))
			case 2:
				a.Push("term", "--")
				n := rapid.IntRange(0, 2).Draw(t, "fntail")
				for i := 0; i < n; i++ {
					a.Push("tail", a.tailTok())
				}
				c.Argv = a.Argv
				c.Kinds = a.Kinds
				return c
			}
		}
	}
	post := rapid.IntRange(0, 2).Draw(t, "npost")
	for i := 0; i < post; i++ {
		a.Step()
	}
	c.Argv = a.Argv
	c.Kinds = a.Kinds
	return c
}

var rePlain = regexp.MustCompile(`^[a-z0-9]+$`)

func findOpt(spec *ProgSpec, name string) *OptSpec {
	for i := range spec.Root.Opts {
		if spec.Root.Opts[i].Name == name {
			return &spec.Root.Opts[i]
		}
	}
	return nil
}

func checkC01(c C01Case, st *evid.Stats) error {
	if DangerousRange(c.Argv) {
		st.Exclude("int range beyond bound")
		return nil
	}
	fo := findOpt(c.Spec, c.Name)
	if fo == nil {
		return failf("harness: focus option %q not in spec", c.Name)
	}
	v := string(c.V)
	// by-construction expectation
	wantFail := false
	wantVal := fo.DefaultCanon()
	wantCalled := true
	switch c.Form {
	case "flag":
		wantCalled = c.N > 0
		if c.N > 0 {
			if fo.Kind == KBool {
				wantVal = Canon(!fo.DefBool)
			} else {
				wantVal = Canon(fo.DefInt + c.N)
			}
		}
	case "optional-novalue":
		// keeps default, called
	default:
		switch fo.Kind.Elem() {
		case 's':
			wantVal = Canon(v)
		case 'i':
			n, err := strconv.Atoi(v)
			if err != nil {
				wantFail = true
			} else {
				wantVal = Canon(n)
			}
		case 'f':
			f, err := strconv.ParseFloat(v, 64)
			if err != nil {
				wantFail = true
			} else {
				wantVal = Canon(f)
			}
		}
	}
	// soundness filter on the surroundings
	m := Model(c.Spec, c.Argv)
	if m.Unspecified != "" {
		st.Exclude("unspecified: " + m.Unspecified)
		return nil
	}
	level := c.Spec.Root.Name
	lv0 := c.Spec.Levels()
	for _, ix := range c.Idx {
		if ix >= len(m.LevelAt) || m.LevelAt[ix] == "" {
			if !m.Fail {
				st.Exclude("focus token not reached by the model")
				return nil
			}
			continue
		}
		level = m.LevelAt[ix]
		if l := lv0.Find(level); l == nil || l.Visible[c.Name] == nil || l.Visible[c.Name].Spec.Name != c.Name {
			st.Exclude("focus option not visible where the generator put it")
			return nil
		}
	}
	if hits := m.Hits[OKey(c.Spec.Root.Name, c.Name)]; !m.Fail && !eqInts(hits, c.Idx) {
		st.Exclude("surrounding tokens address the focus option")
		return nil
	}
	if m.Fail && !wantFail {
		st.Exclude("surroundings fail in the model: " + strings.Join(m.Causes, "+"))
		return nil
	}
	out := Run(c.Spec, c.Argv, RunOpts{})
	st.Eval()
	st.Class("form:" + c.Form)
	st.Class("kind:" + fo.Kind.String())
	st.Class("mode:" + modeNames[c.Spec.Mode])
	if c.Spec.RequireOrder {
		st.Class("require-order")
	}
	if out.Panic != "" {
		return failf("panic: %s", out.Panic)
	}
	nt := !rePlain.MatchString(v) && c.Form != "flag" && c.Form != "optional-novalue"
	if c.Form == "flag" && c.N >= 2 {
		nt = true
	}
	if c.Form == "optional-novalue" && len(c.Argv) > 0 && c.Argv[len(c.Argv)-1] != "--"+c.Name {
		nt = true
	}
	if nt {
		if st.NT(fmt.Sprintf("%v|%s|%q|%d|%d|%s", fo.Kind, c.Form, v, c.N, c.Spec.Mode, KindSig(c.Kinds))) {
			st.Sample(map[string]interface{}{"argv": c.Argv, "focus": c.Name, "kind": fo.Kind.String(), "form": c.Form, "v": c.V, "mode": modeNames[c.Spec.Mode], "expect_fail": wantFail, "expect": wantVal})
		}
	}
	if wantFail {
		st.Class("expect:error")
		if !out.ParseFailed {
			got := out.Opts[OKey(level, c.Name)]
			return failf("value text %q is not a valid %s yet Parse succeeded; option reads %s", v, fo.Kind, got.Val)
		}
		if !out.RemainingNil {
			return failf("failed Parse returned non-nil remaining %s", q(out.Remaining))
		}
		return nil
	}
	st.Class("expect:value")
	if out.ParseFailed {
		return failf("Parse failed (%s) for %s form=%s v=%q", out.ParseErr, fo.Kind, c.Form, v)
	}
	for _, path := range []string{level, c.Spec.Root.Name} {
		got, ok := out.Opts[OKey(path, c.Name)]
		if !ok {
			return failf("harness: no observation for %s at %s", c.Name, path)
		}
		if got.Val != wantVal {
			return failf("%s option %q (form %s, v=%q, n=%d) reads %s at level %s, want %s", fo.Kind, c.Name, c.Form, v, c.N, got.Val, path, wantVal)
		}
		if got.Ptr != "" && got.Ptr != wantVal {
			return failf("%s option %q pointer/Var reads %s, want %s", fo.Kind, c.Name, got.Ptr, wantVal)
		}
		if got.Called != wantCalled {
			return failf("Called(%q) = %v at level %s, want %v", c.Name, got.Called, path, wantCalled)
		}
	}
	return nil
}

var propC01 = &Prop[C01Case]{ID: "C01", Sub: "scalar",
	Rule:  "rapid: random definition (all kinds, modes, commands) + one focus scalar/flag option with a generated value text (hostile pool or random bytes) written as --name=v / --name v / -xv / repeated flag / optional without value (in Bundling mode with Pass/Warn also behind an undeclared letter of the same bundle), surrounded by generated sibling tokens; non-trivial = value text not [a-z0-9]+ (or flag given >=2 times, or optional-without-value followed by another token); distinct by (kind, form, value text, count, mode, neighbour token kinds)",
	Gen:   genC01,
	Check: checkC01,
}

func init() { propC01.Register() }

func TestC01_scalar(t *testing.T) { propC01.Run(t) }

func FuzzC01_scalar(f *testing.F) { propC01.RunFuzz(f) }

// FuzzC01_value: byte-level native fuzzing of the value text itself (coverage-guided through the option
// splitter and the conversions). Fixed small definition; the fuzzer picks kind, spelling, mode and the value bytes.
func FuzzC01_value(f *testing.F) {
	st := evid.New("C01", "value-fuzz", "native fuzzing: (kind, form, mode, value bytes) against a fixed definition; same by-construction oracle as the rapid check")
	f.Cleanup(func() { _ = st.Write() })
	pool := append(append(append([]string{}, strValPool...), intValid...), intInvalid...)
	pool = append(append(pool, floatValid...), floatInvalid...)
	for i, v := range pool {
		if v != "" {
			f.Add(uint8(i), uint8(i/7), uint8(i/3), []byte(v))
		}
	}
	kinds := []Kind{KString, KInt, KFloat, KStringOpt, KIntOpt, KFloatOpt}
	f.Fuzz(func(t *testing.T, k uint8, form uint8, mode uint8, vb []byte) {
		v := string(vb)
		if v == "" || len(v) > 4096 {
			return
		}
		kind := kinds[int(k)%len(kinds)]
		spec := &ProgSpec{Mode: int(mode) % 3, Root: CmdSpec{Name: "prog", Opts: []OptSpec{
			{Kind: kind, Name: "w", Aliases: []string{"focus"}, DefInt: 3, DefFloat: 1.5, DefStr: "dflt"},
			{Kind: KBool, Name: "flag"}, {Kind: KString, Name: "other", DefStr: "o"}}, Cmds: []CmdSpec{{Name: "cmd"}}}}
		c := C01Case{Spec: spec, Name: "w", V: BS(v), Level: "prog", Idx: []int{1}}
		switch int(form) % 3 {
		case 0:
			c.Form = "attached"
			c.Argv = Toks{"--flag", "--focus=" + v, "--other=x", "pos"}
		case 1:
			if strings.HasPrefix(v, "-") {
				return
			}
			c.Form = "detached"
			c.Argv = Toks{"--flag", "--focus", v, "--other=x", "pos"}
		case 2:
			if spec.Mode != ModeSingleDash {
				return
			}
			c.Form = "sd-attached"
			c.Argv = Toks{"--flag", "-w" + v, "--other=x", "pos"}
		}
		if err := propC01.safeCheck(c, st); err != nil {
			path := evid.SaveFail("C01", "scalar", c, err.Error())
			t.Fatalf("C01 violated: %v\ncase file: %s", err, path)
		}
	})
}
