package cli

import (
	"crypto/sha256"
	"encoding/hex"
	"encoding/json"
	"fmt"
	"strings"
	"testing"

	"pgregory.net/rapid"

	"verif/harness/evid"
)

// C20 - same definition and input always give the same result and the same text.
// Oracle: the same case executed R times in-process on fresh definitions (Go
// randomises map iteration per range statement and seeds every map separately);
// every observable output must be byte-equal.

type C20Case struct {
	Spec     *ProgSpec `json:"spec"`
	Argv     Toks      `json:"argv"`
	CompLine BS        `json:"comp_line"`
	Kinds    []string  `json:"kinds,omitempty"`
}

const c20Runs = 12

func genC20(t *rapid.T) C20Case {
	cfg := DefaultCfg()
	cfg.Required = true
	cfg.MinOpts = 2
	cfg.MaxOpts = 6
	cfg.MinCmds = 1
	cfg.Help = 1
	cfg.Valid = true
	cfg.Descriptions = true
	cfg.SingleLetters = rapid.IntRange(0, 1).Draw(t, "sl")
	cfg.NumberedNames = true
	spec := GenProg(t, cfg)
	// the caller's map / slice variable may already hold entries when it is handed to the definition
	spec.Walk(func(path string, c *CmdSpec, _ []*CmdSpec) {
		for i := range c.Opts {
			if c.Opts[i].UseVar && c.Opts[i].Kind.IsMulti() {
				c.Opts[i].PreFill = rapid.Bool().Draw(t, "prefill")
			}
		}
	})
	// completion sources that overlap: static argument suggestions, dynamic ones, sub-command names and
	// suggested / dynamically suggested option values may offer the same candidate more than once
	spec.Walk(func(path string, c *CmdSpec, _ []*CmdSpec) {
		if rapid.Bool().Draw(t, "argsugg") {
			pool := []string{"alpha", "alphabet", "beta", "sandbox", "staging", "list-item", "prod"}
			n := rapid.IntRange(2, len(pool)).Draw(t, "nargsugg")
			c.ArgSugg = append([]string{}, rapid.Permutation(pool).Draw(t, "argsuggorder")[:n]...)
			if len(c.Cmds) > 0 && rapid.Bool().Draw(t, "suggcmd") {
				c.ArgSugg = append(c.ArgSugg, c.Cmds[0].Name)
			}
			if rapid.Bool().Draw(t, "argdyn") {
				c.ArgDyn = []string{c.ArgSugg[0], "staging", "dyn2", c.ArgSugg[len(c.ArgSugg)-1]}
			}
		}
		for i := range c.Opts {
			o := &c.Opts[i]
			if len(o.Suggested) > 0 && rapid.IntRange(0, 2).Draw(t, "dynvals") == 0 {
				o.DynValues = append([]string{"dynval"}, o.Suggested...)
			}
		}
	})
	ac := DefaultArgvCfg()
	ac.Unknown = 5
	ac.Hostile = 3 // ambiguous prefixes such as --ver, --h
	ac.MaxItems = 7
	argv, kinds := GenArgv(t, spec, ac)
	c := C20Case{Spec: spec, Argv: argv, Kinds: kinds}
	c.CompLine = BS(genCompLine(t, spec))
	return c
}

// genCompLine draws a COMP_LINE: program name, a few earlier words, a partial last word.
func genCompLine(t *rapid.T, spec *ProgSpec) string {
	lv := spec.Levels()
	words := []string{"./prog"}
	n := rapid.IntRange(0, 2).Draw(t, "cl_n")
	for i := 0; i < n; i++ {
		if len(lv.ChildSeq) > 0 && rapid.Bool().Draw(t, "cl_cmd") {
			name := rapid.SampledFrom(lv.ChildSeq).Draw(t, "cl_cmdname")
			words = append(words, name)
			lv = lv.Children[name]
		} else if keys := lv.VisibleKeys(); len(keys) > 0 {
			k := rapid.SampledFrom(keys).Draw(t, "cl_key")
			if lv.Visible[k].Spec.Kind.IsFlag() && k != "-" {
				words = append(words, "--"+k)
			}
		}
	}
	last := ""
	switch rapid.IntRange(0, 7).Draw(t, "cl_last") {
	case 6, 7:
		// value completion after --name= for an option that has values to offer (drawn by construction: the
		// generic case below reaches it too rarely)
		var withVals []string
		for _, k := range lv.VisibleKeys() {
			if k != "-" && len(lv.Visible[k].Spec.Valid)+len(lv.Visible[k].Spec.Suggested) > 0 {
				withVals = append(withVals, k)
			}
		}
		if len(withVals) > 0 {
			k := rapid.SampledFrom(withVals).Draw(t, "cl_vkey")
			vs := append(append([]string{}, lv.Visible[k].Spec.Valid...), lv.Visible[k].Spec.Suggested...)
			v := rapid.SampledFrom(vs).Draw(t, "cl_vval")
			cut := 0
			if rapid.Bool().Draw(t, "cl_vpart") {
				cut = rapid.IntRange(0, len(v)).Draw(t, "cl_vcut2")
				for !isRuneBoundary(v, cut) {
					cut--
				}
			}
			last = "--" + k + "=" + v[:cut]
		}
	case 0:
		last = ""
	case 1:
		last = "-"
	case 2:
		last = "--"
	case 3:
		if keys := lv.VisibleKeys(); len(keys) > 0 {
			k := rapid.SampledFrom(keys).Draw(t, "cl_lkey")
			cut := rapid.IntRange(0, len(k)).Draw(t, "cl_cut")
			for !isRuneBoundary(k, cut) {
				cut--
			}
			last = "--" + k[:cut]
			if cut == len(k) && rapid.Bool().Draw(t, "cl_eq") {
				last += "="
				if vs := append(append([]string{}, lv.Visible[k].Spec.Valid...), lv.Visible[k].Spec.Suggested...); len(vs) > 0 && rapid.Bool().Draw(t, "cl_v") {
					v := rapid.SampledFrom(vs).Draw(t, "cl_vv")
					last += v[:rapid.IntRange(0, len(v)).Draw(t, "cl_vcut")]
				}
			}
		}
	case 4:
		if len(lv.ChildSeq) > 0 {
			k := rapid.SampledFrom(lv.ChildSeq).Draw(t, "cl_lcmd")
			cut := rapid.IntRange(0, len(k)).Draw(t, "cl_ccut")
			for !isRuneBoundary(k, cut) {
				cut--
			}
			last = k[:cut]
		}
	case 5:
		last = rapid.SampledFrom([]string{"x", "h", "l", "-v", "--ver"}).Draw(t, "cl_lw")
	}
	if len(lv.Spec.ArgSugg) > 0 && !strings.HasPrefix(last, "-") && rapid.Bool().Draw(t, "cl_sugg") {
		// a non-empty start of a static argument suggestion: some suggestions are filtered out, others kept
		if k := rapid.SampledFrom(lv.Spec.ArgSugg).Draw(t, "cl_suggword"); k != "" {
			cut := rapid.IntRange(1, len(k)).Draw(t, "cl_suggcut")
			for cut < len(k) && !isRuneBoundary(k, cut) {
				cut++
			}
			last = k[:cut]
		}
	}
	return strings.Join(words, " ") + " " + last
}

func digestOf(v interface{}) string {
	b, _ := json.Marshal(v)
	h := sha256.Sum256(b)
	return hex.EncodeToString(h[:8])
}

type c20Obs struct {
	Out   *Outcome     `json:"out"`
	Help  []string     `json:"help"`
	Bash  *CompOutcome `json:"bash"`
	Zsh   *CompOutcome `json:"zsh"`
	HelpP []string     `json:"help_panics,omitempty"`
}

func observeC20(c C20Case) *c20Obs {
	o := &c20Obs{}
	o.Out = Run(c.Spec, c.Argv, RunOpts{Dispatch: true})
	for _, l := range c.Spec.Levels().AllLevels() {
		if l.IsHelpCmd {
			continue
		}
		h, p := HelpAt(c.Spec, l.Path)
		o.Help = append(o.Help, h)
		if p != "" {
			o.HelpP = append(o.HelpP, p)
		}
	}
	parts := strings.Fields(string(c.CompLine))
	lastw, prev := "", ""
	if strings.HasSuffix(string(c.CompLine), " ") || len(parts) == 0 {
		if len(parts) > 0 {
			prev = parts[len(parts)-1]
		}
	} else {
		lastw = parts[len(parts)-1]
		if len(parts) > 1 {
			prev = parts[len(parts)-2]
		}
	}
	args := []string{"./prog", lastw, prev}
	o.Bash = RunCompletion(c.Spec, string(c.CompLine), false, args)
	o.Zsh = RunCompletion(c.Spec, string(c.CompLine), true, args)
	return o
}

func diffObs(a, b *c20Obs) string {
	if a.Out.ParseErr != b.Out.ParseErr {
		return fmt.Sprintf("Parse error message: %q vs %q", a.Out.ParseErr, b.Out.ParseErr)
	}
	if !eqStrs(a.Out.Remaining, b.Out.Remaining) {
		return fmt.Sprintf("remaining: %s vs %s", q(a.Out.Remaining), q(b.Out.Remaining))
	}
	if a.Out.Writer != b.Out.Writer {
		return fmt.Sprintf("warnings: %q vs %q", a.Out.Writer, b.Out.Writer)
	}
	if d := optsDiff(a.Out.Opts, b.Out.Opts); d != "" {
		return "option state: " + d
	}
	if a.Out.DispErr != b.Out.DispErr {
		return fmt.Sprintf("Dispatch error: %q vs %q", a.Out.DispErr, b.Out.DispErr)
	}
	if a.Out.DispWriter != b.Out.DispWriter {
		return fmt.Sprintf("Dispatch output: %q vs %q", a.Out.DispWriter, b.Out.DispWriter)
	}
	for i := range a.Help {
		if i < len(b.Help) && a.Help[i] != b.Help[i] {
			return fmt.Sprintf("help text of level #%d: %q vs %q", i, a.Help[i], b.Help[i])
		}
	}
	if a.Bash.Out != b.Bash.Out {
		return fmt.Sprintf("bash completion list: %q vs %q", a.Bash.Out, b.Bash.Out)
	}
	if a.Zsh.Out != b.Zsh.Out {
		return fmt.Sprintf("zsh completion list: %q vs %q", a.Zsh.Out, b.Zsh.Out)
	}
	if a.Bash.Writer != b.Bash.Writer {
		return fmt.Sprintf("completion error output: %q vs %q", a.Bash.Writer, b.Bash.Writer)
	}
	if digestOf(a) != digestOf(b) {
		return "observable outcome digests differ"
	}
	return ""
}

func checkC20(c C20Case, st *evid.Stats) error {
	if DangerousRange(c.Argv) {
		st.Exclude("int range beyond bound")
		return nil
	}
	first := observeC20(c)
	st.Eval()
	if first.Out.Panic != "" || first.Bash.Panic != "" || first.Zsh.Panic != "" || len(first.HelpP) > 0 {
		return failf("panic: %q %q %q %v", first.Out.Panic, first.Bash.Panic, first.Zsh.Panic, first.HelpP)
	}
	// how many diagnostics compete?
	m := Model(c.Spec, c.Argv)
	missing := 0
	lv := c.Spec.Levels()
	if m.Unspecified == "" {
		if l := lv.Find(m.Final); l != nil {
			for _, vo := range l.VisibleOpts() {
				if vo.Spec.Required {
					if e := m.Opts[OKey(vo.Owner, vo.Spec.Name)]; e != nil && !e.Called {
						missing++
					}
				}
			}
		}
	}
	tables := []string{}
	if missing >= 2 {
		tables = append(tables, "missing-required>=2")
	}
	if len(m.Unknown) >= 2 {
		tables = append(tables, "unknown>=2")
	}
	if contains(m.Causes, "ambiguous") {
		tables = append(tables, "ambiguous")
	}
	if len(first.Bash.Lines) >= 2 {
		tables = append(tables, "completions>=2")
	}
	for _, tb := range tables {
		st.Class(tb)
	}
	if len(tables) > 0 {
		if st.NT(strings.Join(tables, "+") + "|" + KindSig(c.Kinds) + "|" + string(c.CompLine)) {
			st.Sample(map[string]interface{}{"argv": c.Argv, "comp_line": c.CompLine, "competing": tables, "parse_error": first.Out.ParseErr, "dispatch_error": first.Out.DispErr})
		}
	}
	for r := 1; r < c20Runs; r++ {
		o := observeC20(c)
		if d := diffObs(first, o); d != "" {
			return failf("run 1 and run %d of the same definition and input differ: %s (argv %s, COMP_LINE %q)", r+1, d, q(c.Argv), string(c.CompLine))
		}
	}
	return nil
}

var propC20 = &Prop[C20Case]{ID: "C20", Sub: "repeat",
	Rule:  "rapid: definitions with >=2 options per level (a quarter of them named from numbered families such as level9 / level10 / level1x), required options, aliases, commands, suggested values, descriptions x argv rich in unknown options and ambiguous prefixes x a COMP_LINE; each case executed 12 times in-process on fresh definitions (Parse+Dispatch outcome incl. error text and warnings, Help() of every level, bash and zsh completion lists) and compared byte for byte; non-trivial = >=2 missing required options at the selected level, or >=2 unknown options, or an ambiguous prefix, or >=2 completion candidates; distinct by (competing tables, plan classes, COMP_LINE)",
	Gen:   genC20,
	Check: checkC20,
}

func init() { propC20.Register() }

func TestC20_repeat(t *testing.T) { propC20.Run(t) }
