package cli

import (
	"fmt"
	"strings"
	"testing"

	"pgregory.net/rapid"

	"verif/harness/evid"
)

// C08 - unknown options are never silently ignored: Fail errors, Warn warns, Pass passes.
// Oracle: the reference model decides which tokens hold an option that matches
// nothing (exactly or as a prefix) at the level they stand at, and which is first.

func genC08(t *rapid.T) ArgvCase {
	cfg := DefaultCfg()
	cfg.RequireOrder = 0
	cfg.CmdRO = true // a wrapper command may use require-order; unknown options standing before it are still unknown
	cfg.Help = 1
	cfg.MixedUnknown = true // wrapper commands typically run in Pass mode under a Fail/Warn root
	cfg.SingleLetters = rapid.IntRange(0, 1).Draw(t, "sl")
	spec := GenProg(t, cfg)
	ac := DefaultArgvCfg()
	ac.MaxItems = 8
	ac.Unknown = 10
	ac.BadValues = 0
	ac.MissingVals = 0
	ac.Hostile = 0
	ac.Term = 1
	argv, kinds := GenArgv(t, spec, ac)
	return ArgvCase{Spec: spec, Argv: argv, Kinds: kinds}
}

func checkC08(c ArgvCase, st *evid.Stats) error {
	if DangerousRange(c.Argv) {
		st.Exclude("int range beyond bound")
		return nil
	}
	m := Model(c.Spec, c.Argv)
	if m.Unspecified != "" {
		// Which value a value-taking letter inside a bundle receives is unspecified; that an undeclared letter
		// later in the same bundle is an unknown option is not. Judged only where one unknown mode is in force
		// everywhere and nothing stops interpretation early.
		if len(m.MustRemain) > 0 && uniformUnknownNoStop(c.Spec, c.Argv) {
			out := Run(c.Spec, c.Argv, RunOpts{})
			if out.Panic != "" {
				return failf("panic: %s", out.Panic)
			}
			tok := c.Argv[m.MustRemain[0]]
			st.Class("unknown-letter-after-a-value-taking-letter-in-one-bundle/" + unkNames[c.Spec.UnknownMode])
			switch c.Spec.UnknownMode {
			case UnkFail:
				if !out.ParseFailed {
					return failf("Fail mode: Parse succeeded (remaining %s) although token %q holds the undeclared option %q; %s", q(out.Remaining), tok, m.MustRemainName, describeCase(c.Spec, c.Argv))
				}
			case UnkWarn:
				if !out.ParseFailed && !strings.Contains(out.Writer, "'"+m.MustRemainName+"'") {
					return failf("Warn mode: Writer output %q does not mention the undeclared option %q of token %q; %s", out.Writer, m.MustRemainName, tok, describeCase(c.Spec, c.Argv))
				}
				fallthrough
			case UnkPass:
				if !out.ParseFailed && !contains(out.Remaining, tok) {
					return failf("%s mode: token %q holding an unknown option is missing from remaining %s; %s", unkNames[c.Spec.UnknownMode], tok, q(out.Remaining), describeCase(c.Spec, c.Argv))
				}
			}
		}
		st.Exclude("unspecified: " + m.Unspecified)
		return nil
	}
	if len(m.Causes) > 1 || (m.Fail && !contains(m.Causes, "unknown")) {
		st.Exclude("another error source in the same command line: " + strings.Join(m.Causes, "+"))
		return nil
	}
	out := Run(c.Spec, c.Argv, RunOpts{})
	st.Eval()
	if out.Panic != "" {
		return failf("panic: %s", out.Panic)
	}
	final := c.Spec.Levels().Find(m.Final)
	um := c.Spec.UnknownMode
	if final != nil {
		um = final.UnknownMode
	}
	st.Class(fmt.Sprintf("unknown-options:%d/%s", min(len(m.Unknown), 3), unkNames[um]))
	if len(m.Unknown) > 0 {
		valued := false
		for _, k := range c.Kinds {
			if strings.HasPrefix(k, "known:") && !strings.HasSuffix(k, "Bool") && !strings.HasSuffix(k, "Increment") {
				valued = true
			}
		}
		if m.Descents > 0 || valued {
			if st.NT(KindSig(c.Kinds) + "|" + modeNames[c.Spec.Mode] + unkNames[um]) {
				st.Sample(map[string]interface{}{"argv": c.Argv, "mode": modeNames[c.Spec.Mode], "unknown_mode": unkNames[um], "unknown_options": m.Unknown, "selected_level": m.Final, "expect_fail": m.Fail, "expect_remaining": Toks(m.Remaining)})
			}
		}
		if m.Descents > 0 {
			st.Class("unknown+command-descent")
		}
	}
	if err := compareWithModel(c.Spec, c.Argv, m, out, CompareOpts{Values: true, Remaining: true, ErrText: true, Warnings: true}); err != nil {
		return failf("%v; unknown options per the statement: %v (mode %s); %s", err, m.Unknown, unkNames[um], describeCase(c.Spec, c.Argv))
	}
	// every token holding an unknown option is in remaining, verbatim (Pass/Warn)
	if !m.Fail && um != UnkFail {
		for _, ix := range m.UnknownTok {
			found := false
			for _, r := range out.Remaining {
				if r == c.Argv[ix] {
					found = true
				}
			}
			if !found {
				return failf("%s mode: token %q holding an unknown option is missing from remaining %s", unkNames[um], c.Argv[ix], q(out.Remaining))
			}
		}
	}
	return nil
}

// uniformUnknownNoStop: every level has the root's unknown mode, no level has require-order, and the command line
// names neither the built-in help command (created with fresh settings) nor a terminator.
func uniformUnknownNoStop(p *ProgSpec, argv []string) bool {
	if p.RequireOrder {
		return false
	}
	for _, l := range p.Levels().AllLevels() {
		if l.UnknownMode != p.UnknownMode || l.RequireOrder {
			return false
		}
	}
	for _, a := range argv {
		if a == "help" || a == "--" {
			return false
		}
	}
	return true
}

var propC08 = &Prop[ArgvCase]{ID: "C08", Sub: "unknown",
	Rule:  "rapid: random definition (command trees, UnsetOptions wrappers, help, 3 modes x 3 unknown modes, no require-order) x argv plans rich in unknown long/short/bundled options (with and without =value) at any position relative to known options, their values, command tokens and `--`; no other error source; non-trivial = >=1 unknown option and (a command descent or a known valued option in the same line); distinct by plan class sequence + modes",
	Gen:   genC08,
	Check: checkC08,
}

func init() { propC08.Register() }

func TestC08_unknown(t *testing.T) { propC08.Run(t) }

func FuzzC08_unknown(f *testing.F) { propC08.RunFuzz(f) }
