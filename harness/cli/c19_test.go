package cli

import (
	"bytes"
	"encoding/json"
	"fmt"
	"os"
	"path/filepath"
	"strconv"
	"strings"
	"testing"
	"time"

	"pgregory.net/rapid"

	"verif/harness/evid"
)

// C19 - no input makes the library panic or hang; a failed Parse returns (nil, err).
// Oracle: recovered panics, wall-clock bound per call (generous, confirmed by an
// isolated replay before it is reported), nil remaining on error.

type C19Case struct {
	Spec     *ProgSpec `json:"spec"`
	Entry    string    `json:"entry"` // parse | dispatch | help | bash | zsh
	Argv     Toks      `json:"argv"`
	ArgvNil  bool      `json:"argv_nil,omitempty"`
	CompLine BS        `json:"comp_line,omitempty"`
}

const c19Bound = 60 * time.Second

func hostileToken(t *rapid.T, spec *ProgSpec, lv *Level) string {
	switch rapid.IntRange(0, 9).Draw(t, "hk") {
	case 0:
		return string(rapid.SliceOfN(rapid.Byte(), 0, 24).Draw(t, "hbytes"))
	case 1:
		n := rapid.SampledFrom([]int{100, 1000, 5000, 65536}).Draw(t, "hlen")
		ch := rapid.SampledFrom([]string{"a", "v", "-", "=", "é", "\xff", "x="}).Draw(t, "hch")
		return rapid.SampledFrom([]string{"", "-", "--", "--x=", "-x="}).Draw(t, "hpre") + strings.Repeat(ch, n/len(ch))
	case 2:
		// deep bundle of declared letters
		var letters []string
		for _, k := range lv.VisibleKeys() {
			if len([]rune(k)) == 1 {
				letters = append(letters, k)
			}
		}
		if len(letters) == 0 {
			letters = []string{"a"}
		}
		n := rapid.SampledFrom([]int{3, 50, 2000}).Draw(t, "hdeep")
		var b strings.Builder
		b.WriteString("-")
		for i := 0; i < n; i++ {
			b.WriteString(letters[i%len(letters)])
		}
		return b.String()
	case 3:
		return sampled(t, "hodd", []string{"---", "--=", "-=", "--=x", "-=x", "----x", "--\n", "-\n", "--\x00", "-\x00=", "=", "==", "--a==b", "--a=b=c", "- ", " -x", "--\xff", "-\xff\xfe", "--é=", "-日本=語"})
	case 4:
		keys := lv.VisibleKeys()
		if len(keys) > 0 {
			k := rapid.SampledFrom(keys).Draw(t, "hkey")
			return rapid.SampledFrom([]string{"--", "-", "---", ""}).Draw(t, "hdash") + k + rapid.SampledFrom([]string{"", "=", "==", "=\xff", "=1..3", "=9..1", "=a..b", "=1..", "=..", "=-1", "=k", "=k=", "==v", "= ", "=\n"}).Draw(t, "hsuffix")
		}
	case 5:
		return sampled(t, "hrange", []string{"1..3", "3..1", "1..1", "-5..5", "0..10000", "1..2..3", "..", "1..", "..1", "a..b", "+1..+3", "1...3"})
	case 6:
		if len(lv.ChildSeq) > 0 {
			return rapid.SampledFrom(lv.ChildSeq).Draw(t, "hcmd")
		}
	case 7:
		return "--"
	case 8:
		return "-"
	}
	return sampled(t, "hword", wordPool)
}

func genC19(t *rapid.T) C19Case {
	cfg := DefaultCfg()
	cfg.Required = true
	cfg.Env = true
	cfg.Valid = true
	cfg.Descriptions = true
	cfg.MixedUnknown = true
	cfg.SingleLetters = rapid.IntRange(0, 1).Draw(t, "sl")
	spec := GenProg(t, cfg)
	spec.Env = map[string]string{}
	// arbitrary environment content for bound variables
	spec.Walk(func(path string, c *CmdSpec, _ []*CmdSpec) {
		for i := range c.Opts {
			if c.Opts[i].Env != "" && rapid.Bool().Draw(t, "envset") {
				b := rapid.SliceOfN(rapid.ByteRange(1, 255), 0, 12).Draw(t, "envbytes")
				spec.Env[c.Opts[i].Env] = string(b)
			}
		}
	})
	// arg completion decorations
	if rapid.Bool().Draw(t, "argsugg") {
		spec.Root.ArgSugg = []string{"alpha", "beta", "b=c", ""}
		spec.Root.ArgDyn = []string{"dyn1", "dyn=2"}
	}
	c := C19Case{Spec: spec}
	c.Entry = rapid.SampledFrom([]string{"parse", "dispatch", "dispatch", "help", "bash", "zsh"}).Draw(t, "entry")
	lv := spec.Levels()
	a := NewArgvGen(t, spec, DefaultArgvCfg())
	n := rapid.IntRange(0, 8).Draw(t, "n")
	for i := 0; i < n; i++ {
		if rapid.IntRange(0, 2).Draw(t, "hostile") == 0 {
			a.Push("hostile", hostileToken(t, spec, a.Cur()))
		} else if !a.Step() {
			break
		}
	}
	_ = lv
	// Size discipline (the check is bounded by generated size, not by the clock): the parser's look-ahead
	// re-examines the NEXT token once per bundled letter, so cost grows with (letters in a single-dash
	// token) x (length of the following token). Keep that product small: single-dash tokens <= 2000 letters,
	// and next to a bundle of >= 500 letters every other token <= 4096 bytes. 64 KiB tokens remain for long
	// options, values and positionals.
	bigBundle := false
	for i, tk := range a.Argv {
		if strings.HasPrefix(tk, "-") && !strings.HasPrefix(tk, "--") {
			if len(tk) > 2001 {
				a.Argv[i] = tk[:2001]
			}
			if len(tk) >= 500 {
				bigBundle = true
			}
		}
	}
	if bigBundle {
		for i, tk := range a.Argv {
			if len(tk) > 4096 {
				a.Argv[i] = tk[:4096]
			}
		}
	}
	c.Argv = a.Argv
	if n == 0 && rapid.Bool().Draw(t, "nilargv") {
		c.Argv = nil
		c.ArgvNil = true
	}
	if c.Entry == "bash" || c.Entry == "zsh" {
		var cl string
		switch rapid.IntRange(0, 3).Draw(t, "clk") {
		case 0:
			cl = genCompLine(t, spec)
		case 1:
			cl = string(rapid.SliceOfN(rapid.ByteRange(1, 255), 1, 40).Draw(t, "clbytes"))
		case 2:
			cl = "./prog " + strings.Join(a.Argv, " ")
			if rapid.Bool().Draw(t, "cltrail") {
				cl += rapid.SampledFrom([]string{" ", "  ", "\t", "\n"}).Draw(t, "cltr")
			}
		case 3:
			cl = rapid.SampledFrom([]string{" ", "  ", "./prog", "./prog ", "./prog  ", "./prog -", "./prog --", "./prog --=", "./prog = ", "x", "./prog help ", "./prog help help "}).Draw(t, "clfix")
		}
		cl = strings.ReplaceAll(cl, "\x00", "")
		if cl == "" {
			cl = " "
		}
		c.CompLine = BS(cl)
		// args as the shell would pass them, or arbitrary
		switch rapid.IntRange(0, 5).Draw(t, "argsk") {
		case 0:
			c.Argv = nil
			c.ArgvNil = true
		case 1:
			c.Argv = Toks{}
		case 4:
			c.Argv = Toks{"./prog"}
		case 5:
			c.Argv = Toks{"./prog", rapid.SampledFrom([]string{"", "x", "--"}).Draw(t, "args2")}
		case 2:
			parts := strings.Fields(cl)
			last := ""
			if len(parts) > 0 && !strings.HasSuffix(cl, " ") {
				last = parts[len(parts)-1]
			}
			c.Argv = Toks{"./prog", last, "prev"}
		}
	}
	return c
}

func writeCurrent(id, sub string, c interface{}) {
	raw, err := json.Marshal(c)
	if err != nil {
		return
	}
	f := evid.Failure{Property: id, Sub: sub, Message: "case in flight when the process stopped (hang / crash candidate)", Case: raw}
	b, _ := json.Marshal(f)
	shard := os.Getenv("VERIF_SHARD")
	if shard == "" {
		shard = "0"
	}
	_ = os.WriteFile(filepath.Join(evid.OutDir(), fmt.Sprintf("current-%s-%s-%s.json", id, sub, shard)), b, 0o644)
}

func checkC19(c C19Case, st *evid.Stats) error {
	if DangerousRange(c.Argv) || DangerousRange([]string{string(c.CompLine)}) {
		st.Exclude("int range beyond the stated bound (span > 10^4)")
		return nil
	}
	for _, v := range c.Spec.Env {
		if DangerousRange([]string{v}) {
			st.Exclude("int range beyond the stated bound (span > 10^4)")
			return nil
		}
	}
	if os.Getenv("VERIF_TRACK_CURRENT") != "" {
		writeCurrent("C19", "robust", c)
	}
	var argv []string
	if !c.ArgvNil {
		argv = append([]string{}, c.Argv...)
		if c.Argv == nil {
			argv = []string{}
		}
	}
	start := time.Now()
	reached := false
	switch c.Entry {
	case "parse", "dispatch":
		out := Run(c.Spec, argv, RunOpts{Dispatch: c.Entry == "dispatch"})
		st.Eval()
		if out.Panic != "" {
			return failf("panic in %s: %s (argv %s)", c.Entry, out.Panic, q(argv))
		}
		if out.ParseFailed && !out.RemainingNil {
			return failf("failed Parse returned a non-nil remaining list %s with error %q", q(out.Remaining), out.ParseErr)
		}
		for _, o := range out.Opts {
			if o.Called {
				reached = true
			}
		}
		if len(out.Inv) > 0 {
			reached = true
		}
	case "help":
		for _, l := range c.Spec.Levels().AllLevels() {
			if l.IsHelpCmd {
				continue
			}
			if _, p := HelpAt(c.Spec, l.Path); p != "" {
				return failf("panic in Help() at %s: %s", l.Path, p)
			}
		}
		st.Eval()
		reached = true
	case "bash", "zsh":
		co := RunCompletion(c.Spec, string(c.CompLine), c.Entry == "zsh", argv)
		st.Eval()
		if co.Panic != "" {
			return failf("panic in completion (%s): %s (COMP_LINE %q args %s)", c.Entry, co.Panic, string(c.CompLine), q(argv))
		}
		if co.Returned {
			return failf("completion request did not leave through the exit path (COMP_LINE %q)", string(c.CompLine))
		}
		reached = true
	}
	if el := time.Since(start); el > c19Bound {
		return failf("call took %s (bound %s) for entry %s", el, c19Bound, c.Entry)
	}
	st.Class("entry:" + c.Entry)
	if reached {
		kinds := []string{}
		for _, tk := range c.Argv {
			kinds = append(kinds, TokClass(tk))
		}
		if st.NT(c.Entry + "|" + strings.Join(kinds, ",") + "|" + fmt.Sprint(len(c.CompLine)) + modeNames[c.Spec.Mode]) {
			smp := map[string]interface{}{"entry": c.Entry, "mode": modeNames[c.Spec.Mode]}
			if len(c.Argv) > 0 {
				short := Toks{}
				for _, tk := range c.Argv {
					if len(tk) > 80 {
						tk = tk[:80] + fmt.Sprintf("...(%d bytes)", len(tk))
					}
					short = append(short, tk)
				}
				smp["argv"] = short
			}
			if c.CompLine != "" {
				smp["comp_line"] = c.CompLine
			}
			st.Sample(smp)
		}
	}
	return nil
}

var propC19 = &Prop[C19Case]{ID: "C19", Sub: "robust",
	Rule:  "rapid: valid random definitions (12 kinds, required, env with arbitrary bytes, valid/suggested values, mixed unknown modes, wrappers, help) x argv mixing planned tokens with hostile ones (random bytes, 64 KiB tokens, 2000-letter bundles, odd dash tokens, malformed ranges, nil/empty argv) x entry point {Parse, Parse+Dispatch, Help() at every level, bash/zsh completion with arbitrary COMP_LINE and args}; int ranges with span > 10^4 discarded (stated bound); non-trivial = the input reached an option match, a command function, help rendering or the completion branch; distinct by (entry, token class sequence, COMP_LINE length, mode)",
	Gen:   genC19,
	Check: checkC19,
}

func init() { propC19.Register() }

func TestC19_robust(t *testing.T) { propC19.Run(t) }

func FuzzC19_robust(f *testing.F) { propC19.RunFuzz(f) }

// ---------------------------------------------------------------------------
// byte-level target: fixed feature-dense definitions, raw bytes as tokens

func denseSpecs() []*ProgSpec {
	mk := func(mode, unk int, ro bool) *ProgSpec {
		return &ProgSpec{Mode: mode, UnknownMode: unk, RequireOrder: ro, Help: "help", HelpAliases: []string{"?"},
			Root: CmdSpec{Name: "prog", Desc: "dense", ArgSugg: []string{"alpha", "beta"}, ArgDyn: []string{"dyn1", "dyn=2"},
				Opts: []OptSpec{
					{Kind: KBool, Name: "v", Aliases: []string{"verbose"}},
					{Kind: KIncrement, Name: "i", Aliases: []string{"inc"}},
					{Kind: KString, Name: "s", Aliases: []string{"str", "string"}, Valid: nil, Suggested: []string{"dev", "prod"}},
					{Kind: KInt, Name: "n", Aliases: []string{"num"}, Required: false},
					{Kind: KFloat, Name: "f", Aliases: []string{"float"}},
					{Kind: KStringOpt, Name: "so", Aliases: []string{"O"}},
					{Kind: KIntOpt, Name: "io"},
					{Kind: KFloatOpt, Name: "fo"},
					{Kind: KStringSlice, Name: "l", Aliases: []string{"list"}, Min: 1, Max: 3},
					{Kind: KIntSlice, Name: "I", Aliases: []string{"ints"}, Min: 1, Max: 3},
					{Kind: KFloatSlice, Name: "F", Aliases: []string{"floats"}, Min: 2, Max: 2},
					{Kind: KStringMap, Name: "m", Aliases: []string{"map"}, Min: 1, Max: 2},
					{Kind: KBool, Name: "-"},
					{Kind: KString, Name: "é", Valid: []string{"a", "b"}},
				},
				Cmds: []CmdSpec{
					{Name: "run", Opts: []OptSpec{{Kind: KString, Name: "req", Required: true}, {Kind: KBool, Name: "x"}}, Cmds: []CmdSpec{{Name: "deep", Opts: []OptSpec{{Kind: KIntSlice, Name: "z", Min: 1, Max: 2}}}}},
					{Name: "wrap", Unset: true, UnknownMode: 3},
					{Name: "nofn", NoFn: true, Cmds: []CmdSpec{{Name: "a"}, {Name: "b"}}},
				}}}
	}
	var out []*ProgSpec
	for mode := 0; mode < 3; mode++ {
		for unk := 0; unk < 3; unk++ {
			out = append(out, mk(mode, unk, false))
		}
	}
	for mode := 0; mode < 3; mode++ {
		out = append(out, mk(mode, 0, true))
	}
	return out
}

var denseCache = denseSpecs()

func decodeC19(data []byte) (C19Case, bool) {
	if len(data) < 2 {
		return C19Case{}, false
	}
	specs := denseCache
	c := C19Case{Spec: specs[int(data[0])%len(specs)]}
	c.Entry = []string{"parse", "dispatch", "dispatch", "bash", "zsh"}[int(data[1])%5]
	rest := data[2:]
	if len(rest) > 16384 {
		rest = rest[:16384] // size discipline, see genC19
	}
	if c.Entry == "bash" || c.Entry == "zsh" {
		cl := bytes.ReplaceAll(rest, []byte{0}, []byte{' '})
		if len(cl) == 0 {
			cl = []byte(" ")
		}
		c.CompLine = BS("./prog " + string(cl))
		c.Argv = Toks{"./prog", "", ""}
		return c, true
	}
	parts := bytes.Split(rest, []byte{0})
	for _, p := range parts {
		c.Argv = append(c.Argv, string(p))
	}
	if len(c.Argv) > 64 {
		c.Argv = c.Argv[:64]
	}
	return c, true
}

func FuzzC19_bytes(f *testing.F) {
	st := evid.New("C19", "bytes", "native fuzzing: byte 0 selects one of 12 dense definitions (mode x unknown mode x require-order), byte 1 the entry point, the rest splits at NUL into argv / is the COMP_LINE")
	f.Cleanup(func() { _ = st.Write() })
	seeds := []string{"--v\x00--s=dev\x00run\x00--req\x00x", "-vi\x00-l\x00a\x00b\x00--\x00--n", "--I=1..3\x00--m\x00k=a=b", "help\x00run", "--ver", "-\x00--é=a", "wrap\x00--unk\x00-x", "--F\x001\x002\x00--fo\x00--io=7", "nofn", "--s", "--n=abc", "--str=a\nb"}
	for i, s := range seeds {
		for e := 0; e < 5; e++ {
			f.Add(append([]byte{byte(i), byte(e)}, []byte(s)...))
		}
	}
	f.Fuzz(func(t *testing.T, data []byte) {
		c, ok := decodeC19(data)
		if !ok {
			return
		}
		if err := propC19.safeCheck(c, st); err != nil {
			path := evid.SaveFail("C19", "robust", c, err.Error())
			t.Fatalf("C19 violated: %v\ncase file: %s", err, path)
		}
	})
}

// TestC19_seeds runs the byte-level seed corpus as plain cases (quick tier).
func TestC19_seeds(t *testing.T) {
	st := evid.New("C19", "seeds", "committed byte-level seed inputs decoded and run through the same check")
	defer st.Write()
	seeds := []string{"--v\x00--s=dev\x00run\x00--req\x00x", "-vi\x00-l\x00a\x00b\x00--\x00--n", "--I=1..3\x00--m\x00k=a=b", "help\x00run", "--ver", "-\x00--é=a", "wrap\x00--unk\x00-x", "--F\x001\x002\x00--fo\x00--io=7", "nofn", "--s", "--n=abc", "--str=a\nb", "", "\x00", "--", "--\x00--", "-", "---", "--=", "-="}
	for i := 0; i < len(denseCache); i++ {
		for e := 0; e < 5; e++ {
			for _, s := range seeds {
				c, ok := decodeC19(append([]byte{byte(i), byte(e)}, []byte(s)...))
				if !ok {
					continue
				}
				if err := propC19.safeCheck(c, st); err != nil {
					path := evid.SaveFail("C19", "seeds", c, err.Error())
					t.Fatalf("C19/seeds violated: %v\ncase file: %s", err, path)
				}
			}
		}
	}
}

func init() {
	(&Prop[C19Case]{ID: "C19", Sub: "seeds", Rule: "replay", Check: checkC19}).Register()
}

// TestC19_corpus replays the committed native-fuzz corpus (inputs that reached new coverage in earlier
// campaigns, /verif/corpus/FuzzC19_bytes) through the same check: the seconds-long replay tier of the fuzzer.
func TestC19_corpus(t *testing.T) {
	st := evid.New("C19", "corpus", "committed coverage-increasing inputs of earlier native fuzz campaigns (corpus/FuzzC19_bytes), decoded like the fuzz target and run through the same check")
	defer st.Write()
	dir := os.Getenv("VERIF_CORPUS")
	if dir == "" {
		dir = filepath.Join("..", "..", "corpus")
	}
	files, _ := filepath.Glob(filepath.Join(dir, "FuzzC19_bytes", "*"))
	for _, f := range files {
		b, err := os.ReadFile(f)
		if err != nil {
			continue
		}
		lines := strings.Split(string(b), "\n")
		if len(lines) < 2 || !strings.HasPrefix(lines[1], "[]byte(") {
			continue
		}
		lit := strings.TrimSuffix(strings.TrimPrefix(lines[1], "[]byte("), ")")
		data, err := strconv.Unquote(lit)
		if err != nil {
			continue
		}
		c, ok := decodeC19([]byte(data))
		if !ok {
			continue
		}
		if err := propC19.safeCheck(c, st); err != nil {
			path := evid.SaveFail("C19", "corpus", c, err.Error())
			t.Fatalf("C19/corpus violated: %v\ncase file: %s", err, path)
		}
	}
}

func init() {
	(&Prop[C19Case]{ID: "C19", Sub: "corpus", Rule: "replay", Check: checkC19}).Register()
}
