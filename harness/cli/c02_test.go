package cli

import (
	"fmt"
	"strings"
	"testing"

	"pgregory.net/rapid"

	"verif/harness/evid"
)

// C02 - multi-value options consume the right tokens and keep every value in order.
// Oracle: the consumption rule transcribed from the statement (reference model):
// attached value counts one, min is mandatory, beyond min stop at the first
// option-looking token, `--`, or token that is not well-formed for the element
// type; values appended in command-line order; map key = text before the first '='.

type C02Case struct {
	Spec     *ProgSpec `json:"spec"`
	Argv     Toks      `json:"argv"`
	Name     string    `json:"name"`
	Follow   []string  `json:"follow,omitempty"` // kinds of the tokens written after each occurrence head
	Attached []bool    `json:"attached,omitempty"`
	Kinds    []string  `json:"kinds,omitempty"`
}

var followKinds = []string{"value", "value", "value", "number", "kv", "malformed", "flagopt", "dash", "term", "command", "range", "word", "float", "dashvalue"}

func followTok(t *rapid.T, kind string, elem byte, lv *Level, fo *OptSpec) (string, bool) {
	switch kind {
	case "value":
		return genValue(t, elem, false, "fv"), true
	case "number":
		return sampled(t, "fnum", intValid), true
	case "float":
		return sampled(t, "fflt", floatValid), true
	case "kv":
		return sampled(t, "fkv", mapValid), true
	case "malformed":
		return genValue(t, elem, true, "fbad"), true
	case "range":
		return sampled(t, "frng", append(append([]string{}, intRanges...), intRangesBad...)), true
	case "word":
		return sampled(t, "fword", wordPool), true
	case "dash":
		return "-", true
	case "term":
		return "--", true
	case "dashvalue":
		return sampled(t, "fdv", []string{"-1", "-x", "--x", "-1.5", "--unk"}), true
	case "flagopt":
		var flags []string
		for _, k := range lv.VisibleKeys() {
			if lv.Visible[k].Spec.Kind.IsFlag() && k != "-" && lv.Visible[k].Spec != fo {
				flags = append(flags, k)
			}
		}
		if len(flags) == 0 {
			return "", false
		}
		return "--" + rapid.SampledFrom(flags).Draw(t, "fflag"), true
	case "command":
		if len(lv.ChildSeq) == 0 {
			return "", false
		}
		return rapid.SampledFrom(lv.ChildSeq).Draw(t, "fcmd"), true
	}
	return "", false
}

func genC02(t *rapid.T) C02Case {
	cfg := DefaultCfg()
	cfg.RequireOrder = 0
	cfg.MaxOpts = 3
	spec := GenProg(t, cfg)
	fo := addFocus(t, spec, []Kind{KStringSlice, KIntSlice, KFloatSlice, KStringMap})
	c := C02Case{Spec: spec, Name: fo.Name}
	a := NewArgvGen(t, spec, safeArgvCfg())
	a.AvoidLevel = func(l *Level) bool {
		_, ok := l.Visible[fo.Name]
		return !ok
	}
	pre := rapid.IntRange(0, 2).Draw(t, "npre")
	for i := 0; i < pre; i++ {
		a.Step()
	}
	elem := fo.Kind.Elem()
	nocc := rapid.SampledFrom([]int{1, 1, 2, 3}).Draw(t, "nocc")
	for oi := 0; oi < nocc && !a.ended; oi++ {
		lv := a.Cur()
		if _, ok := lv.Visible[fo.Name]; !ok {
			break
		}
		key := spellKey(t, lv, fo)
		head := "--" + key
		if spec.Mode == ModeNormal && rapid.IntRange(0, 3).Draw(t, "sd") == 0 {
			head = "-" + key
		}
		att := rapid.IntRange(0, 2).Draw(t, "att") == 0
		if att {
			var v string
			switch rapid.IntRange(0, 5).Draw(t, "attk") {
			case 0:
				v = genValue(t, elem, true, "attbad")
			case 1:
				v = sampled(t, "attrng", intRanges)
			case 2:
				v = sampled(t, "attdash", []string{"-1", "-x=1", "--", "-", "k=-v"})
			default:
				v = genValue(t, elem, false, "attv")
			}
			if v == "" {
				att = false
			} else {
				head += "=" + v
			}
		}
		c.Attached = append(c.Attached, att)
		a.Push("focus", head)
		need := fo.Min
		if att {
			need--
		}
		nf := need + rapid.IntRange(0, fo.Max-fo.Min+2).Draw(t, "nfollow")
		if rapid.IntRange(0, 9).Draw(t, "short") == 0 {
			nf = rapid.IntRange(0, nf).Draw(t, "nshort")
		}
		for j := 0; j < nf; j++ {
			k := rapid.SampledFrom(followKinds).Draw(t, "fk")
			if j < need && rapid.IntRange(0, 9).Draw(t, "mand") > 0 {
				k = "value"
				if elem == 'i' && rapid.IntRange(0, 4).Draw(t, "mrng") == 0 {
					k = "range"
				}
			}
			tok, ok := followTok(t, k, elem, lv, fo)
			if !ok {
				continue
			}
			c.Follow = append(c.Follow, k)
			a.Push("follow:"+k, tok)
			if k == "command" {
				if ch, ok := lv.Children[tok]; ok {
					a.cur = ch // may or may not be a descent (the model decides); tracking is only a generation aid
				}
				break
			}
			if k == "term" {
				break
			}
		}
		c.Follow = append(c.Follow, "|")
	}
	post := rapid.IntRange(0, 2).Draw(t, "npost")
	for i := 0; i < post; i++ {
		a.Step()
	}
	c.Argv = a.Argv
	c.Kinds = a.Kinds
	return c
}

func checkC02(c C02Case, st *evid.Stats) error {
	if DangerousRange(c.Argv) {
		st.Exclude("int range beyond bound")
		return nil
	}
	fo := findOpt(c.Spec, c.Name)
	if fo == nil || !fo.Kind.IsMulti() {
		return failf("harness: focus option %q missing or not multi-valued", c.Name)
	}
	m := Model(c.Spec, c.Argv)
	if m.Unspecified != "" {
		st.Exclude("unspecified: " + m.Unspecified)
		return nil
	}
	out := Run(c.Spec, c.Argv, RunOpts{})
	st.Eval()
	st.Class("kind:" + fo.Kind.String())
	st.Class(fmt.Sprintf("minmax:%d,%d", fo.Min, fo.Max))
	if m.Fail {
		st.Class("expect:error:" + strings.Join(m.Causes, "+"))
	} else {
		st.Class("expect:ok")
	}
	hits := len(m.Hits[OKey(c.Spec.Root.Name, c.Name)])
	if hits > 0 && ((fo.Max > fo.Min && m.Decisions > 0) || strings.Contains(strings.Join(c.Argv, " "), "..") || fo.Kind == KStringMap) {
		if st.NT(fmt.Sprintf("%v|%d|%d|%v|%s|%d", fo.Kind, fo.Min, fo.Max, c.Attached, strings.Join(c.Follow, ","), c.Spec.Mode)) {
			e := m.Opts[OKey(c.Spec.Root.Name, c.Name)]
			st.Sample(map[string]interface{}{"argv": c.Argv, "focus": c.Name, "kind": fo.Kind.String(), "min": fo.Min, "max": fo.Max, "expect_fail": m.Fail, "expect_value": e.Val, "expect_remaining": Toks(m.Remaining)})
		}
	}
	if err := compareWithModel(c.Spec, c.Argv, m, out, CompareOpts{Values: true, Remaining: true}); err != nil {
		return failf("%v [focus %s %s(min=%d,max=%d)] %s", err, c.Name, fo.Kind, fo.Min, fo.Max, describeCase(c.Spec, c.Argv))
	}
	return nil
}

var propC02 = &Prop[C02Case]{ID: "C02", Sub: "multi",
	Rule:  "rapid: random definition + one focus slice/map option (4 element types, 1<=min<=3, max=min..min+3) with 1-3 occurrences (=-attached first value or not) each followed by 0..max+2 tokens drawn from the kinds {well-formed value, number, float, key=value, malformed element, int range, option-looking flag, '-', '--', dash-leading text, command name, plain word, end}; non-trivial = the option was addressed and (max>min and >=1 greedy look-ahead decision was taken, or a range was used, or it is a map); distinct by (type,min,max,attached pattern,follow-kind sequence,mode)",
	Gen:   genC02,
	Check: checkC02,
}

func init() { propC02.Register() }

func TestC02_multi(t *testing.T) { propC02.Run(t) }

func FuzzC02_multi(f *testing.F) { propC02.RunFuzz(f) }

// TestC02_exhaustive enumerates the consumption decision space completely for a small scope:
// 4 element types x (min,max) in {(1,1),(1,2),(1,3),(2,2),(2,3),(3,3)} x first value {detached, attached
// valid, attached malformed} x every follower sequence of length 0..4 over the token alphabet
// {valid value, malformed element / range, known flag, "-", "--", command name, unknown option}.
func TestC02_exhaustive(t *testing.T) {
	st := evid.New("C02", "exhaustive", "exhaustive small scope: 4 element types x 6 (min,max) pairs x {no attached value, attached valid, attached malformed} x all follower sequences of length 0..4 over {valid value, malformed/range element, known flag, '-', '--', command name, unknown option}; each compared with the reference consumption rule (values, order, remaining, error-ness); non-trivial = max>min and a look-ahead decision was taken, or a map")
	st.Exhaustive = true
	defer st.Write()
	kinds := []Kind{KStringSlice, KIntSlice, KFloatSlice, KStringMap}
	mm := [][2]int{{1, 1}, {1, 2}, {1, 3}, {2, 2}, {2, 3}, {3, 3}}
	alphabet := []string{"V", "B", "F", "D", "T", "C", "U"}
	val := func(k Kind, i int) string {
		switch k.Elem() {
		case 'i':
			return fmt.Sprint(i + 1)
		case 'f':
			return fmt.Sprintf("%d.5", i)
		case 'm':
			return fmt.Sprintf("k%d=v=%d", i%2, i)
		}
		return fmt.Sprintf("s%d", i)
	}
	bad := func(k Kind) string {
		switch k.Elem() {
		case 'i':
			return "1..3"
		case 'f':
			return "1e"
		case 'm':
			return "novalue"
		}
		return "cmd2" // strings are never malformed: use a non-command word
	}
	var seqs [][]string
	var rec func(cur []string, n int)
	rec = func(cur []string, n int) {
		seqs = append(seqs, append([]string{}, cur...))
		if n == 0 {
			return
		}
		for _, a := range alphabet {
			rec(append(cur, a), n-1)
		}
	}
	rec(nil, 4)
	for _, k := range kinds {
		for _, m := range mm {
			spec := &ProgSpec{Root: CmdSpec{Name: "prog", Opts: []OptSpec{{Kind: k, Name: "multi", Min: m[0], Max: m[1]}, {Kind: KBool, Name: "flag"}}, Cmds: []CmdSpec{{Name: "cmd"}}}}
			for att := 0; att < 3; att++ {
				for _, sq := range seqs {
					argv := []string{}
					switch att {
					case 0:
						argv = append(argv, "--multi")
					case 1:
						argv = append(argv, "--multi="+val(k, 9))
					case 2:
						argv = append(argv, "--multi="+bad(k))
					}
					for i, a := range sq {
						switch a {
						case "V":
							argv = append(argv, val(k, i))
						case "B":
							argv = append(argv, bad(k))
						case "F":
							argv = append(argv, "--flag")
						case "D":
							argv = append(argv, "-")
						case "T":
							argv = append(argv, "--")
						case "C":
							argv = append(argv, "cmd")
						case "U":
							argv = append(argv, "--unk")
						}
					}
					c := C02Case{Spec: spec, Argv: argv, Name: "multi", Follow: sq, Attached: []bool{att > 0}}
					if err := propC02.safeCheck(c, st); err != nil {
						path := evid.SaveFail("C02", "multi", c, err.Error())
						t.Fatalf("C02/exhaustive violated: %v\ncase file: %s", err, path)
					}
				}
			}
		}
	}
}
