package cli

import (
	"sort"
	"strconv"
	"strings"

	"pgregory.net/rapid"
)

// ---------------------------------------------------------------------------
// pools

// Prefix-rich name pool: families whose members prefix each other.
var namePool = []string{
	"v", "ve", "ver", "verb", "verbose", "version", "verify",
	"h", "he", "hel", "host", "hostname",
	"l", "li", "list", "lim", "limit",
	"dry", "dry-run", "d", "debug", "dev",
	"a", "b", "c", "x", "y", "z", "q", "V", "X",
	"1", "2", "n", "name", "num", "number", "o", "out", "output",
	"f", "fl", "flag", "fleg", "force", "file",
	"é", "él", "élan", "ñ", "日", "日本",
	"p", "profile", "port", "t", "tag", "timeout", "s", "set", "size", "k", "key", "kv",
	"i", "int", "in", "r", "rate", "ratio", "m", "map", "max", "min", "w", "u", "g", "e", "j",
	"log_level", "log-limit", "log_", "max_retries", "max-rate", "dry_run", "_", "_x",
}

// Numbered families: names whose numeric and alphabetic order disagree, with names in between.
var numberedPool = []string{"level9", "level10", "level1x", "v2", "v10", "v1beta", "n1", "n02", "n2", "level", "v1", "n10"}

var cmdPool = []string{"list", "run", "show", "v", "help", "log", "get", "set", "x", "sub", "wrap", "exec", "name", "1", "日本", "dev", "build", "a"}

var wordPool = []string{
	"foo", "bar", "baz", "hello", "world", "list", "run", "show", "v", "x", "sub", "wrap", "get", "set", "log", "build",
	"", " ", "a b", "a=b", "k=v", "k=a=b", "=", "=x", "x=", "1", "7", "007", "3.5", "1..3", "true", "false",
	"é", "日本", "\xff", "a\nb", "a\tb", "file.txt", "./path/to", "verbose", "help", "name", "-=v", "--=v", "-=", "--=a=b",
	"/", "/tmp/file", "/v", "/verbose=1", "//x", // absolute paths are plain words (a slash is no option prefix)
}

var strValPool = []string{
	"foo", "bar", "hello", "x", "list", "run", "help", "v", "verbose", "true", "false",
	"-", "-x", "--x", "--", "-1", "--name=v", "-abc", "---",
	"a=b", "k=a=b", "=", "==", "=x", "x=", ":x", "::", ":memory:", "=:x", "a b", " lead", "trail ", "a\nb", "\n", "a\r\nb", "a\tb",
	"é", "日本語", "\xff", "a\xffb", "\x00", strings.Repeat("long", 50),
	"1", "0", "3.5", "1..3", "1e3", "NaN",
	"/", "/tmp/file", "/v", "/x=1",
}

var intValid = []string{"0", "7", "-7", "+7", "007", "42", "123456", "-1", "9223372036854775807", "-9223372036854775808", "1", "2", "3", "10", "010", "0100", "-012", "+08", "0099"}
var intInvalid = []string{"1..3", "3..7", "-2..2", "0..1", "", " 1", "1 ", "1.0", "1e3", "0x10", "1_000", "１２", "9223372036854775808", "-9223372036854775809", "abc", "1a", "a1", "--1", "+-1", "1..", "..1", "NaN", "12abc", "0b1", "٣", "1\n", "\n1", "1=2", "="}
var floatValid = []string{"0", "1.5", "-1.5", "+2.25", ".5", "5.", "1e3", "1E-3", "007", "0x1p-2", "NaN", "Inf", "-Inf", "+Inf", "inf", "nan", "infinity", "1e308", "-0", "4.9e-324", "1e-400", "123456789.125", "3", "0x10", "0X1P+4"}
var floatInvalid = []string{"1..3", "1.5..2.5", "", " 1", "1 ", "1e", "e1", "1e309", "-1e309", "1_000", "１.５", "abc", "1.2.3", "1,5", "--1", "0x", "0x1", "1..3", ".", "+", "1f", "1\n", "NaNx", "in", "1=2", "="}
var intRanges = []string{"1..3", "-2..2", "0..1", "7..10", "+1..+2", "-5..-3", "1..100"}
var intRangesBad = []string{"3..1", "1..1", "1..3..5", "a..b", "1..b", "..", "1...3"}
var mapValid = []string{"/k=/v", "k=v", "a=b", "k=a=b", "k==", "k=", "=v", "=", "K=v", "key=value with space", "k=\n", "é=日本", "k=-x", "k=--", "a=1", "b=2", "k=v2", "x=y=z=w"}
var mapInvalid = []string{"kv", "", "novalue", "1", "a b"}

func sampled(t *rapid.T, label string, pool []string) string {
	return rapid.SampledFrom(pool).Draw(t, label)
}

// ---------------------------------------------------------------------------
// definition generator

// GenCfg shapes the definition generator.
type GenCfg struct {
	MaxDepth      int // command nesting below the root
	MaxCmds       int
	MinCmds       int // minimum number of sub-commands attempted at the root and first level
	MaxOpts       int
	MinOpts       int
	Kinds         []Kind
	Modes         []int
	UnkModes      []int
	RequireOrder  int // 0 never, 1 sometimes, 2 always
	Help          int // 0 never, 1 sometimes, 2 always
	Unset         bool
	Env           bool
	Required      bool
	NoFn          bool
	MixedUnknown  bool // allow per-command unknown-mode overrides
	NoCmdRO       bool // never set require-order on a sub-command only
	CmdRO         bool // allow require-order on sub-commands even when the root never has it
	NumberedNames bool // a quarter of the definitions take their option names from numbered families (level9, level10, level1x)
	Descriptions  bool
	Valid         bool // allow ValidValues / SuggestedValues
	SetCalled     bool
	NoDashName    bool // never use "-" as an option name
	ASCIINames    bool
	SingleLetters int // 0 default mix, 1 prefer single letters
}

// DefaultCfg is the general-purpose configuration.
func DefaultCfg() GenCfg {
	all := []Kind{}
	for k := KBool; k < NumKinds; k++ {
		all = append(all, k)
	}
	return GenCfg{MaxDepth: 2, MaxCmds: 3, MaxOpts: 5, Kinds: all, Modes: []int{0, 1, 2}, UnkModes: []int{0, 1, 2}, RequireOrder: 1, Help: 1, Unset: true, Env: false, Required: false, NoFn: true, Descriptions: false, SetCalled: false}
}

type genCtx struct {
	t        *rapid.T
	cfg      GenCfg
	reserved map[string]bool // help name + aliases
	envN     int
	spec     *ProgSpec
	numbered bool
}

func (g *genCtx) name(used map[string]bool, label string) string {
	pool := namePool
	if g.numbered {
		pool = numberedPool
	} else if g.cfg.SingleLetters == 1 && rapid.IntRange(0, 2).Draw(g.t, label+"_sl") > 0 {
		pool = []string{"a", "b", "c", "x", "y", "z", "q", "V", "X", "v", "h", "l", "d", "n", "o", "f", "é", "ñ", "日", "1", "2", "p", "t", "s", "k", "i", "r", "m", "w", "u", "g", "e", "j"}
	}
	for try := 0; try < 40; try++ {
		n := rapid.SampledFrom(pool).Draw(g.t, label)
		if !g.cfg.NoDashName && rapid.IntRange(0, 60).Draw(g.t, label+"_dash") == 0 {
			n = "-"
		}
		if g.cfg.ASCIINames && !isASCII(n) {
			continue
		}
		if used[n] || g.reserved[n] {
			continue
		}
		used[n] = true
		return n
	}
	// fall back to a synthetic unique name
	for i := 0; ; i++ {
		n := "opt" + strconv.Itoa(i)
		if !used[n] && !g.reserved[n] {
			used[n] = true
			return n
		}
	}
}

func isASCII(s string) bool {
	for i := 0; i < len(s); i++ {
		if s[i] >= 0x80 {
			return false
		}
	}
	return true
}

func (g *genCtx) opt(used map[string]bool, idx int) OptSpec {
	t := g.t
	o := OptSpec{}
	o.Kind = rapid.SampledFrom(g.cfg.Kinds).Draw(t, "kind")
	o.Name = g.name(used, "name")
	na := rapid.SampledFrom([]int{0, 0, 0, 1, 1, 2, 3}).Draw(t, "nalias")
	for i := 0; i < na; i++ {
		o.Aliases = append(o.Aliases, g.name(used, "alias"))
	}
	if o.Name == "-" && !o.Kind.IsFlag() {
		o.Kind = KBool
	}
	if len(o.Aliases) >= 2 {
		o.AliasSplit = rapid.Bool().Draw(t, "aliassplit")
	}
	o.UseVar = rapid.Bool().Draw(t, "usevar")
	switch o.Kind {
	case KBool:
		o.DefBool = rapid.Bool().Draw(t, "defb")
	case KIncrement, KInt, KIntOpt:
		o.DefInt = rapid.SampledFrom([]int{0, 0, 1, -1, 5, 42, -100}).Draw(t, "defi")
	case KFloat, KFloatOpt:
		o.DefFloat = rapid.SampledFrom([]float64{0, 0, 1.5, -2.25, 100, 1e-3}).Draw(t, "deff")
	case KString, KStringOpt:
		o.DefStr = rapid.SampledFrom([]string{"", "", "def", "d e f", "x=y", "-d"}).Draw(t, "defs")
	default:
		o.Min = rapid.IntRange(1, 3).Draw(t, "min")
		o.Max = o.Min + rapid.SampledFrom([]int{0, 0, 1, 1, 2, 3}).Draw(t, "maxd")
	}
	if g.cfg.Required && rapid.IntRange(0, 3).Draw(t, "req") == 0 {
		o.Required = true
		if rapid.Bool().Draw(t, "reqmsg") {
			o.RequiredMsg = "please give " + strings.ToUpper(o.Name) + " now"
			if rapid.IntRange(0, 3).Draw(t, "reqpct") == 0 {
				o.RequiredMsg = "need " + strings.ToUpper(o.Name) + " (100% %s %d required)"
			}
		}
	}
	if g.cfg.Env && (o.Kind == KBool || o.Kind.IsScalar()) && rapid.IntRange(0, 2).Draw(t, "env") == 0 {
		g.envN++
		o.Env = "VERIF_ENV_" + strconv.Itoa(g.envN)
	}
	if g.cfg.Descriptions && rapid.Bool().Draw(t, "hasdesc") {
		o.Desc = rapid.SampledFrom([]string{"Describe it", "Line one\nline two", "Uses <angle> and [square]", "short"}).Draw(t, "desc") + " #" + strconv.Itoa(idx)
	}
	if g.cfg.Valid && (o.Kind.Elem() == 's') && rapid.IntRange(0, 4).Draw(t, "hasvalid") == 0 {
		vals := []string{"dev", "development", "prod", "production", "staging", "debug", "info", "infinity", "error"}
		n := rapid.IntRange(1, 4).Draw(t, "nvalid")
		start := rapid.IntRange(0, len(vals)-n).Draw(t, "validstart")
		if rapid.Bool().Draw(t, "validkind") {
			o.Valid = vals[start : start+n]
		} else {
			o.Suggested = vals[start : start+n]
		}
	}
	if g.cfg.SetCalled && rapid.IntRange(0, 9).Draw(t, "setcalled") == 0 {
		o.SetCalled = true
	}
	return o
}

func (g *genCtx) cmd(name string, depth int, used map[string]bool) CmdSpec {
	t := g.t
	c := CmdSpec{Name: name}
	if g.cfg.Descriptions {
		c.Desc = "cmd " + name + " does things"
		switch rapid.IntRange(0, 5).Draw(t, "cdescml") {
		case 0:
			c.Desc += "\nand more things"
		case 1: // several paragraphs: a summary, an empty line, a body
			c.Desc += "\n\nbody of " + name + " after an empty line\nlast line of " + name
		}
	}
	myUsed := map[string]bool{}
	for k := range used {
		myUsed[k] = true
	}
	nopts := rapid.IntRange(g.cfg.MinOpts, g.cfg.MaxOpts).Draw(t, "nopts")
	for i := 0; i < nopts; i++ {
		c.Opts = append(c.Opts, g.opt(myUsed, i))
	}
	if depth < g.cfg.MaxDepth {
		lo := 0
		if depth <= 1 && g.cfg.MinCmds > 0 {
			lo = g.cfg.MinCmds
		}
		ncmds := rapid.IntRange(lo, max(lo, g.cfg.MaxCmds)).Draw(t, "ncmds")
		seen := map[string]bool{}
		for i := 0; i < ncmds; i++ {
			cn := rapid.SampledFrom(cmdPool).Draw(t, "cmdname")
			if seen[cn] || g.reserved[cn] {
				continue
			}
			seen[cn] = true
			unset := g.cfg.Unset && rapid.IntRange(0, 5).Draw(t, "unset") == 0
			childUsed := myUsed
			if unset && rapid.Bool().Draw(t, "unsetcollide") {
				// a wrapper that unset the inherited options may declare the same names and aliases again:
				// different options under the same key at two levels
				childUsed = map[string]bool{}
			}
			ch := g.cmd(cn, depth+1, childUsed)
			ch.Unset = unset
			if g.cfg.MixedUnknown && rapid.IntRange(0, 3).Draw(t, "unkov") == 0 {
				ch.UnknownMode = 1 + rapid.SampledFrom(g.cfg.UnkModes).Draw(t, "unkovv")
			}
			if g.cfg.NoFn && rapid.IntRange(0, 6).Draw(t, "nofn") == 0 {
				ch.NoFn = true
			}
			if (g.cfg.RequireOrder == 1 || g.cfg.CmdRO) && !g.cfg.NoCmdRO && rapid.IntRange(0, 7).Draw(t, "cmdro") == 0 {
				ch.RequireOrder = true
			}
			c.Cmds = append(c.Cmds, ch)
		}
	}
	return c
}

// GenProg draws a program definition.
func GenProg(t *rapid.T, cfg GenCfg) *ProgSpec {
	g := &genCtx{t: t, cfg: cfg, reserved: map[string]bool{}}
	p := &ProgSpec{}
	g.spec = p
	if cfg.NumberedNames {
		g.numbered = rapid.IntRange(0, 3).Draw(t, "numbered") == 0
	}
	p.Mode = rapid.SampledFrom(cfg.Modes).Draw(t, "mode")
	p.ModeLate = rapid.IntRange(0, 3).Draw(t, "modelate") == 0
	p.UnknownMode = rapid.SampledFrom(cfg.UnkModes).Draw(t, "unkmode")
	if cfg.MixedUnknown && len(cfg.UnkModes) > 1 && rapid.IntRange(0, 5).Draw(t, "unklate") == 0 {
		p.UnknownLate = 1 + rapid.SampledFrom(cfg.UnkModes).Draw(t, "unklatemode")
	}
	switch cfg.RequireOrder {
	case 1:
		p.RequireOrder = rapid.IntRange(0, 4).Draw(t, "ro") == 0
	case 2:
		p.RequireOrder = true
	}
	hasHelp := cfg.Help == 2 || (cfg.Help == 1 && rapid.IntRange(0, 2).Draw(t, "hashelp") == 0)
	if hasHelp {
		p.Help = rapid.SampledFrom([]string{"help", "help", "ayuda", "h"}).Draw(t, "helpname")
		g.reserved[p.Help] = true
		if rapid.Bool().Draw(t, "helpalias") {
			a := rapid.SampledFrom([]string{"?", "hh", "H"}).Draw(t, "helpaliasname")
			p.HelpAliases = []string{a}
			g.reserved[a] = true
		}
	}
	p.Root = g.cmd("prog", 0, map[string]bool{})
	if cfg.NoFn && rapid.IntRange(0, 8).Draw(t, "rootnofn") == 0 {
		p.Root.NoFn = true
	}
	return p
}

// ---------------------------------------------------------------------------
// argv generator

// ArgvCfg shapes the argv plan generator.
type ArgvCfg struct {
	MaxItems    int
	Unknown     int  // weight of unknown options
	Term        int  // weight of a `--` terminator
	Hostile     int  // weight of raw hostile tokens
	Commands    int  // weight of command tokens
	Positional  int  // weight of positionals
	Known       int  // weight of known option occurrences
	BadValues   int  // 1 in N chance (0 = never) that a value is malformed for its type
	Abbrev      bool // allow unique-prefix spellings
	DashValues  bool // allow attached values that start with '-'
	MissingVals int  // 1 in N chance that a mandatory value is left out at end / before an option
}

// DefaultArgvCfg is the general mix.
func DefaultArgvCfg() ArgvCfg {
	return ArgvCfg{MaxItems: 7, Unknown: 2, Term: 1, Hostile: 1, Commands: 3, Positional: 4, Known: 8, BadValues: 12, Abbrev: true, DashValues: true, MissingVals: 15}
}

// uniquePrefixes returns the proper prefixes of key that resolve to key alone at level l (and are not keys themselves).
func uniquePrefixes(l *Level, key string) []string {
	var out []string
	for i := 1; i < len(key); i++ {
		p := key[:i]
		if !isRuneBoundary(key, i) {
			continue
		}
		if _, exact := l.Visible[p]; exact {
			continue
		}
		n := 0
		for k := range l.Visible {
			if strings.HasPrefix(k, p) {
				n++
			}
		}
		if n == 1 {
			out = append(out, p)
		}
	}
	return out
}

func isRuneBoundary(s string, i int) bool {
	if i <= 0 || i >= len(s) {
		return true
	}
	return s[i]&0xC0 != 0x80
}

func genValue(t *rapid.T, elem byte, bad bool, label string) string {
	switch elem {
	case 'i':
		if bad {
			return sampled(t, label+"_ibad", intInvalid)
		}
		return sampled(t, label+"_i", intValid)
	case 'f':
		if bad {
			return sampled(t, label+"_fbad", floatInvalid)
		}
		return sampled(t, label+"_f", floatValid)
	case 'm':
		if bad {
			return sampled(t, label+"_mbad", mapInvalid)
		}
		return sampled(t, label+"_m", mapValid)
	}
	return sampled(t, label+"_s", strValPool)
}

// ArgvGen renders argv token by token while tracking the level the model would be at.
type ArgvGen struct {
	t     *rapid.T
	spec  *ProgSpec
	cfg   ArgvCfg
	cur   *Level
	Argv  []string
	Kinds []string // class of each plan item, for evidence histograms
	ended bool
	// Exclude is an option never mentioned by generated items (the focus option of a by-construction check).
	Exclude *OptSpec
	// AvoidLevel vetoes descending into a command level.
	AvoidLevel func(l *Level) bool
}

func (a *ArgvGen) keysHere() []string {
	var keys []string
	for _, k := range a.cur.VisibleKeys() {
		if a.Exclude != nil && a.cur.Visible[k].Spec == a.Exclude {
			continue
		}
		keys = append(keys, k)
	}
	return keys
}

func (a *ArgvGen) cmdsHere() []string {
	var out []string
	for _, n := range a.cur.ChildSeq {
		if a.AvoidLevel != nil && a.AvoidLevel(a.cur.Children[n]) {
			continue
		}
		out = append(out, n)
	}
	return out
}

// Cur returns the level the plan has reached.
func (a *ArgvGen) Cur() *Level { return a.cur }

// NewArgvGen starts a plan at the root level.
func NewArgvGen(t *rapid.T, spec *ProgSpec, cfg ArgvCfg) *ArgvGen {
	return &ArgvGen{t: t, spec: spec, cfg: cfg, cur: spec.Levels(), Argv: []string{}}
}

// Push appends literal tokens to the plan.
func (a *ArgvGen) Push(kind string, toks ...string) {
	a.Argv = append(a.Argv, toks...)
	a.Kinds = append(a.Kinds, kind)
}

// spellOption renders one occurrence of the option addressed by key at level l.
func (a *ArgvGen) spellOption(l *Level, key string) []string {
	t := a.t
	vo := l.Visible[key]
	o := vo.Spec
	written := key
	if a.cfg.Abbrev && rapid.IntRange(0, 3).Draw(t, "abbr") == 0 {
		if ps := uniquePrefixes(l, key); len(ps) > 0 {
			written = rapid.SampledFrom(ps).Draw(t, "abbrp")
		}
	}
	mode := a.spec.Mode
	bad := a.cfg.BadValues > 0 && rapid.IntRange(1, a.cfg.BadValues).Draw(t, "bad") == 1
	elem := o.Kind.Elem()
	val := func(label string) string {
		if len(o.Valid) > 0 && rapid.IntRange(0, 9).Draw(t, label+"_vv") > 0 {
			return rapid.SampledFrom(o.Valid).Draw(t, label+"_valid")
		}
		return genValue(t, elem, bad, label)
	}
	// dash style
	style := "--"
	single := len([]rune(written)) == 1
	switch mode {
	case ModeNormal:
		if rapid.IntRange(0, 3).Draw(t, "sdash") == 0 {
			style = "-"
		}
	case ModeBundling, ModeSingleDash:
		if single && rapid.IntRange(0, 2).Draw(t, "sdash") > 0 {
			style = "-"
		}
	}
	if written == "-" {
		return []string{"-"}
	}
	head := style + written
	if o.Kind.IsFlag() {
		if style == "-" && mode == ModeBundling && rapid.IntRange(0, 2).Draw(t, "bundle") == 0 {
			// bundle with other single-letter flags visible here
			var letters []string
			for _, k := range l.VisibleKeys() {
				if len([]rune(k)) == 1 && k != "-" && l.Visible[k].Spec.Kind.IsFlag() && l.Visible[k].Spec != a.Exclude {
					letters = append(letters, k)
				}
			}
			n := rapid.IntRange(0, 3).Draw(t, "nbundle")
			for i := 0; i < n && len(letters) > 0; i++ {
				head += rapid.SampledFrom(letters).Draw(t, "bletter")
			}
		}
		return []string{head}
	}
	attach := rapid.IntRange(0, 2).Draw(t, "attach") == 0
	if style == "-" && mode == ModeSingleDash {
		// -xREST form (REST attached directly) or detached
		if attach {
			v := val("v")
			if v == "" {
				return []string{head}
			}
			if rapid.IntRange(0, 3).Draw(t, "sdeq") == 0 {
				return []string{head + "=" + v} // in SingleDash mode the '=' belongs to the value
			}
			return []string{head + v}
		}
	}
	var toks []string
	n := 0
	if attach {
		v := val("v")
		if v != "" && (a.cfg.DashValues || !strings.HasPrefix(v, "-")) {
			toks = append(toks, head+"="+v)
			n = 1
		} else {
			toks = append(toks, head)
		}
	} else {
		toks = append(toks, head)
	}
	detached := func(label string) (string, bool) {
		for try := 0; try < 5; try++ {
			v := val(label)
			if v != "" && !strings.HasPrefix(v, "-") {
				return v, true
			}
		}
		return "", false
	}
	switch {
	case o.Kind.IsMandatoryScalar():
		if n == 0 {
			if a.cfg.MissingVals > 0 && rapid.IntRange(1, a.cfg.MissingVals).Draw(t, "missing") == 1 {
				return toks
			}
			if v, ok := detached("dv"); ok {
				toks = append(toks, v)
			}
		}
	case o.Kind.IsOptional():
		if n == 0 && rapid.Bool().Draw(t, "optval") {
			if v, ok := detached("dv"); ok {
				toks = append(toks, v)
			}
		}
	case o.Kind.IsMulti():
		want := o.Min
		if o.Max > o.Min {
			want = rapid.IntRange(o.Min, o.Max).Draw(t, "nvals")
		}
		if a.cfg.MissingVals > 0 && rapid.IntRange(1, a.cfg.MissingVals).Draw(t, "missing") == 1 && want > 0 {
			want--
		}
		for ; n < want; n++ {
			if o.Kind == KIntSlice && !bad && rapid.IntRange(0, 5).Draw(t, "range") == 0 {
				toks = append(toks, sampled(t, "rng", intRanges))
				continue
			}
			if v, ok := detached("mv"); ok {
				toks = append(toks, v)
			}
		}
	}
	return toks
}

func (a *ArgvGen) unknownTok() string {
	t := a.t
	names := []string{"unk", "zzz", "W", "Q", "wq", "nope", "unknown-opt", "Z", "0", "ü", "12", "1.5", "99"}
	n := rapid.SampledFrom(names).Draw(t, "unkname")
	if rapid.IntRange(0, 2).Draw(t, "unkelsewhere") == 0 {
		// a name declared elsewhere in the tree but not visible (not even as a prefix) at this level:
		// a child's own option given before the command token, a parent's option inside an UnsetOptions wrapper
		var elsewhere []string
		for _, l := range a.spec.Levels().AllLevels() {
			for _, k := range l.VisibleKeys() {
				if k == "-" {
					continue
				}
				if key, cands := resolve(a.cur, k); key == "" && len(cands) == 0 {
					elsewhere = append(elsewhere, k)
				}
			}
		}
		if len(elsewhere) > 0 {
			n = rapid.SampledFrom(elsewhere).Draw(t, "unkelsewherename")
		}
	}
	style := rapid.SampledFrom([]string{"--", "--", "-"}).Draw(t, "unkdash")
	tok := style + n
	if a.spec.Mode == ModeBundling && style == "-" && rapid.Bool().Draw(t, "unkbundle") {
		// mix in known flag letters
		var letters []string
		for _, k := range a.keysHere() {
			if len([]rune(k)) == 1 && k != "-" && a.cur.Visible[k].Spec.Kind.IsFlag() {
				letters = append(letters, k)
			}
		}
		if len(letters) > 0 {
			l := rapid.SampledFrom(letters).Draw(t, "unkbl")
			if rapid.Bool().Draw(t, "unkblpos") {
				tok = "-" + l + n
			} else {
				tok = "-" + n + l
			}
		}
	}
	if a.spec.Mode == ModeBundling && rapid.IntRange(0, 5).Draw(t, "unkaftervalued") == 0 {
		// a value-taking declared letter followed by an undeclared one in the same bundle
		for _, k := range a.keysHere() {
			if len([]rune(k)) == 1 && k != "-" && !a.cur.Visible[k].Spec.Kind.IsFlag() {
				return "-" + k + rapid.SampledFrom([]string{"Q", "W", "Z"}).Draw(t, "unkletter")
			}
		}
	}
	if rapid.IntRange(0, 3).Draw(t, "unkval") == 0 {
		tok += "=" + sampled(t, "unkv", []string{"val", "1", "a=b", "-x", "a b"})
	}
	return tok
}

// Step appends one plan item. Returns false when the plan ended (after a terminator).
func (a *ArgvGen) Step() bool {
	t := a.t
	if a.ended {
		return false
	}
	c := a.cfg
	wKnown := c.Known
	keysHere := a.keysHere()
	if len(keysHere) == 0 {
		wKnown = 0
	}
	wCmd := c.Commands
	cmdsHere := a.cmdsHere()
	if len(cmdsHere) == 0 {
		wCmd = 0
	}
	total := wKnown + wCmd + c.Positional + c.Unknown + c.Term + c.Hostile
	if total == 0 {
		return false
	}
	r := rapid.IntRange(0, total-1).Draw(t, "item")
	switch {
	case r < wKnown:
		key := rapid.SampledFrom(keysHere).Draw(t, "optkey")
		a.Argv = append(a.Argv, a.spellOption(a.cur, key)...)
		a.Kinds = append(a.Kinds, "known:"+a.cur.Visible[key].Spec.Kind.String())
	case r < wKnown+wCmd:
		name := rapid.SampledFrom(cmdsHere).Draw(t, "cmdtok")
		a.Argv = append(a.Argv, name)
		a.cur = a.cur.Children[name]
		a.Kinds = append(a.Kinds, "command")
	case r < wKnown+wCmd+c.Positional:
		w := sampled(t, "word", wordPool)
		if len(a.cur.ChildSeq) > 0 && rapid.IntRange(0, 5).Draw(t, "cmdprefixword") == 0 {
			// a plain word that merely starts like a command name (commands are never abbreviated), or continues one
			n := sampled(t, "cmdprefixof", a.cur.ChildSeq)
			if r := []rune(n); len(r) > 1 && rapid.Bool().Draw(t, "cmdprefixshorter") {
				w = string(r[:rapid.IntRange(1, len(r)-1).Draw(t, "cmdprefixlen")])
			} else {
				w = n + "x"
			}
		}
		if ch, ok := a.cur.Children[w]; ok {
			// the word is a command name here: it is a command token
			if a.AvoidLevel != nil && a.AvoidLevel(ch) {
				w = "foo"
			} else {
				a.cur = ch
				a.Argv = append(a.Argv, w)
				a.Kinds = append(a.Kinds, "command")
				break
			}
		}
		a.Argv = append(a.Argv, w)
		a.Kinds = append(a.Kinds, "positional")
	case r < wKnown+wCmd+c.Positional+c.Unknown:
		a.Argv = append(a.Argv, a.unknownTok())
		a.Kinds = append(a.Kinds, "unknown")
	case r < wKnown+wCmd+c.Positional+c.Unknown+c.Term:
		a.Argv = append(a.Argv, "--")
		a.Kinds = append(a.Kinds, "term")
		// hostile tail
		n := rapid.IntRange(0, 4).Draw(t, "ntail")
		for i := 0; i < n; i++ {
			a.Argv = append(a.Argv, a.tailTok())
		}
		a.ended = true
		return false
	default:
		a.Argv = append(a.Argv, sampled(t, "hostile", []string{"-", "", "--x=", "-é", "--日本", "-1", "-12", "-1.5", "-007", "-3e2", "-99", "-x=5", "--no-such=1", "-\xff", "--a\nb=c", "--v", "-v", "-vv", "--ver", "--h"}))
		a.Kinds = append(a.Kinds, "hostile")
	}
	return true
}

// tailTok draws a token meant to stand after a terminator or stop point: things that would have an effect before it.
func (a *ArgvGen) tailTok() string {
	t := a.t
	switch rapid.IntRange(0, 5).Draw(t, "tailkind") {
	case 0:
		keys := a.cur.VisibleKeys()
		if len(keys) > 0 {
			k := rapid.SampledFrom(keys).Draw(t, "tailkey")
			if k == "-" {
				return "-"
			}
			if rapid.Bool().Draw(t, "tailattach") {
				return "--" + k + "=" + sampled(t, "tailv", []string{"1", "v", "k=v"})
			}
			return "--" + k
		}
	case 1:
		if len(a.cur.ChildSeq) > 0 {
			return rapid.SampledFrom(a.cur.ChildSeq).Draw(t, "tailcmd")
		}
	case 2:
		return "--"
	case 3:
		return a.unknownTok()
	case 4:
		return sampled(t, "tailw", wordPool)
	}
	return sampled(t, "tailh", []string{"-", "--unk", "-x", "foo", "1", "--help", "help"})
}

// GenArgv draws a full argv for spec.
func GenArgv(t *rapid.T, spec *ProgSpec, cfg ArgvCfg) (argv []string, kinds []string) {
	a := NewArgvGen(t, spec, cfg)
	n := rapid.IntRange(0, cfg.MaxItems).Draw(t, "nitems")
	for i := 0; i < n; i++ {
		if !a.Step() {
			break
		}
	}
	return a.Argv, a.Kinds
}

// KindSig is a compact signature of the plan for distinct counting.
func KindSig(kinds []string) string {
	return strings.Join(kinds, ",")
}

// sortedCopy returns a sorted copy.
func sortedCopy(s []string) []string {
	c := append([]string{}, s...)
	sort.Strings(c)
	return c
}
