package cli

import (
	"fmt"
	"strings"
	"testing"

	"pgregory.net/rapid"

	"verif/harness/evid"
)

// C05 - abbreviations: unique prefix = full name, exact name wins, ambiguity errors.
// Oracle: M(p) = declared names/aliases at the level with prefix p, computed by
// the harness from the name set alone. Exhaustive within a case: every prefix of
// every visible name, in every spelling the mode allows.

type C05Case struct {
	Spec *ProgSpec `json:"spec"`
	Path []string  `json:"path"` // command tokens leading to the level under test
}

func genC05(t *rapid.T) C05Case {
	cfg := DefaultCfg()
	cfg.MaxOpts = 7
	cfg.MinOpts = 1
	cfg.MaxDepth = 2
	cfg.Help = 1
	cfg.Valid = false
	cfg.SingleLetters = rapid.IntRange(0, 1).Draw(t, "sl")
	spec := GenProg(t, cfg)
	c := C05Case{Spec: spec, Path: []string{}}
	lv := spec.Levels()
	depth := rapid.IntRange(0, 2).Draw(t, "depth")
	for i := 0; i < depth; i++ {
		var cands []string
		for _, n := range lv.ChildSeq {
			if !lv.Children[n].IsHelpCmd {
				cands = append(cands, n)
			}
		}
		if len(cands) == 0 {
			break
		}
		n := rapid.SampledFrom(cands).Draw(t, "pathcmd")
		c.Path = append(c.Path, n)
		lv = lv.Children[n]
	}
	return c
}

func valueFor(o *OptSpec) string {
	switch o.Kind.Elem() {
	case 'i':
		return "7"
	case 'f':
		return "1.5"
	case 'm':
		return "k=v"
	}
	return "val"
}

func checkC05(c C05Case, st *evid.Stats) error {
	lv := c.Spec.Levels()
	for _, n := range c.Path {
		ch, ok := lv.Children[n]
		if !ok {
			return failf("harness: bad path %v", c.Path)
		}
		lv = ch
	}
	keys := lv.VisibleKeys()
	base := Run(c.Spec, c.Path, RunOpts{})
	if base.Panic != "" {
		return failf("panic: %s", base.Panic)
	}
	if base.ParseFailed {
		st.Exclude("path alone does not parse (required option / other)")
		return nil
	}
	nested := false
	for _, a := range keys {
		for _, b := range keys {
			if a != b && strings.HasPrefix(b, a) {
				nested = true
			}
		}
	}
	mode := c.Spec.Mode
	tried := map[string]bool{}
	for _, K := range keys {
		if K == "-" {
			continue
		}
		for i := 1; i <= len(K); i++ {
			if !isRuneBoundary(K, i) {
				continue
			}
			p := K[:i]
			if tried[p] {
				continue
			}
			tried[p] = true
			var M []string
			for _, k := range keys {
				if strings.HasPrefix(k, p) {
					M = append(M, k)
				}
			}
			_, isKey := lv.Visible[p]
			spellings := []string{"--"}
			single := len([]rune(p)) == 1
			if mode == ModeNormal || single {
				spellings = append(spellings, "-")
			}
			for _, dash := range spellings {
				st.Eval()
				var target string
				switch {
				case isKey:
					target = p
				case len(M) == 1:
					target = M[0]
				}
				mk := func(name string, o *OptSpec) []string {
					dash := dash
					if mode != ModeNormal && len([]rune(name)) > 1 {
						dash = "--" // a multi-letter single-dash token is a bundle / head+rest in these modes
					}
					tok := dash + name
					if o != nil && !o.Kind.IsFlag() {
						if dash == "-" && mode == ModeSingleDash {
							tok += valueFor(o)
						} else {
							tok += "=" + valueFor(o)
						}
					}
					out := append(append([]string{}, c.Path...), tok)
					if o != nil && o.Kind.IsMulti() {
						for j := 1; j < o.Min; j++ {
							out = append(out, valueFor(o))
						}
					}
					return out
				}
				// Bundling mode: the same letter inside a bundle, after a declared flag letter, is the same
				// abbreviation (`-xp` is `-x -p`): resolved when unique, rejected when ambiguous
				if mode == ModeBundling && single && dash == "-" {
					x := ""
					for _, k := range keys {
						if k != "-" && k != p && len([]rune(k)) == 1 && lv.Visible[k].Spec.Kind.IsFlag() {
							x = k
							break
						}
					}
					if x != "" {
						suffix := ""
						if target != "" && !lv.Visible[target].Spec.Kind.IsFlag() {
							suffix = "=" + valueFor(lv.Visible[target].Spec)
						}
						bundle := append(append([]string{}, c.Path...), "-"+x+p+suffix)
						split := append(append([]string{}, c.Path...), "-"+x, "-"+p+suffix)
						if target != "" && lv.Visible[target].Spec.Kind.IsMulti() {
							for j := 1; j < lv.Visible[target].Spec.Min; j++ {
								bundle = append(bundle, valueFor(lv.Visible[target].Spec))
								split = append(split, valueFor(lv.Visible[target].Spec))
							}
						}
						BB, SS := Run(c.Spec, bundle, RunOpts{}), Run(c.Spec, split, RunOpts{})
						if BB.Panic != "" || SS.Panic != "" {
							return failf("panic: %s%s", BB.Panic, SS.Panic)
						}
						switch {
						case target != "":
							st.Class("letter-inside-a-bundle:resolves")
							if BB.ParseFailed != SS.ParseFailed {
								return failf("letter %q (addresses %q among %v) inside the bundle %s: Parse failed=%v (%s), as separate tokens %s: failed=%v (%s)", p, target, keys, q(bundle), BB.ParseFailed, BB.ParseErr, q(split), SS.ParseFailed, SS.ParseErr)
							}
							if !BB.ParseFailed {
								if d := optsDiff(SS.Opts, BB.Opts); d != "" {
									return failf("letter %q (addresses %q among %v) behaves differently inside the bundle %s than as separate tokens %s: %s", p, target, keys, q(bundle), q(split), d)
								}
							}
						case len(M) >= 2:
							st.Class("letter-inside-a-bundle:ambiguous")
							if !BB.ParseFailed {
								return failf("letter %q matches %v at level %s and is not a name itself, yet inside the bundle %s it was accepted: Parse succeeded", p, M, lv.Path, q(bundle))
							}
							for _, cand := range M {
								if !strings.Contains(BB.ParseErr, cand) {
									return failf("ambiguity error %q for bundle %s does not list candidate %q of %v", BB.ParseErr, q(bundle), cand, M)
								}
							}
						}
					}
				}
				if target != "" {
					o := lv.Visible[target].Spec
					argvP := mk(p, o)
					B := Run(c.Spec, argvP, RunOpts{})
					if B.Panic != "" {
						return failf("panic: %s", B.Panic)
					}
					if B.ParseFailed {
						return failf("prefix %q (argv %s) uniquely addresses %q among %v at level %s yet Parse failed: %s", p, q(argvP), target, keys, lv.Path, B.ParseErr)
					}
					got := B.Opts[OKey(lv.Path, target)]
					if !got.Called || got.As != target {
						return failf("after %s: Called(%q)=%v CalledAs=%q, want true/%q (level %s, names %v)", q(argvP), target, got.Called, got.As, target, lv.Path, keys)
					}
					// priming: the same spelling used at the root before the command tokens must not influence
					// how it is resolved at this level (each level has its own table)
					if len(c.Path) > 0 {
						root := c.Spec.Levels()
						if rk, _ := resolve(root, p); rk != "" && !(root.Visible[rk].Spec.Kind.IsMulti() && root.Visible[rk].Spec.Max > root.Visible[rk].Spec.Min) {
							ro := root.Visible[rk].Spec
							prime := mk(p, ro)[len(c.Path):]
							argvQ := append(append(append([]string{}, prime...), c.Path...), argvP[len(c.Path):]...)
							Q := Run(c.Spec, argvQ, RunOpts{})
							st.Class("primed-at-root")
							if Q.Panic != "" {
								return failf("panic: %s", Q.Panic)
							}
							if Q.ParseFailed {
								return failf("%q resolves at the root (to %q) and at level %s (to %q), yet Parse(%s) failed: %s", p, rk, lv.Path, target, q(argvQ), Q.ParseErr)
							}
							gq := Q.Opts[OKey(lv.Path, target)]
							if !gq.Called || gq.As != target {
								return failf("after %s: at level %s Called(%q)=%v CalledAs=%q, want true/%q - the spelling %q was resolved differently after it had been used at the root", q(argvQ), lv.Path, target, gq.Called, gq.As, target, p)
							}
							if !o.Kind.IsMulti() && !o.Kind.IsFlag() && gq.Val != got.Val {
								return failf("after %s: option %q at level %s reads %s, want %s", q(argvQ), target, lv.Path, gq.Val, got.Val)
							}
						}
					}
					if !isKey {
						st.Class("unique-prefix")
						if nested && len(p) < len(target) {
							if st.NT(fmt.Sprintf("u|%v|%s|%s|%d", keys, p, dash, mode)) {
								st.Sample(map[string]interface{}{"names": keys, "prefix": p, "resolves_to": target, "argv": Toks(argvP), "mode": modeNames[mode]})
							}
						}
						argvF := mk(target, o)
						A := Run(c.Spec, argvF, RunOpts{})
						if A.ParseFailed {
							return failf("full name spelling %s failed: %s", q(argvF), A.ParseErr)
						}
						if d := optsDiff(A.Opts, B.Opts); d != "" {
							return failf("prefix %q behaves differently from full name %q: %s (argv %s vs %s, names %v)", p, target, d, q(argvP), q(argvF), keys)
						}
						if !eqStrs(A.Remaining, B.Remaining) {
							return failf("prefix %q vs full name %q: remaining %s vs %s", p, target, q(B.Remaining), q(A.Remaining))
						}
					} else {
						st.Class("exact-name")
						if len(M) > 1 {
							st.Class("exact-name-that-prefixes-others")
							if st.NT(fmt.Sprintf("e|%v|%s|%s|%d", keys, p, dash, mode)) {
								st.Sample(map[string]interface{}{"names": keys, "exact": p, "also_prefix_of": M, "argv": Toks(argvP), "mode": modeNames[mode]})
							}
						}
						// every other option untouched
						for _, k := range keys {
							if lv.Visible[k] == lv.Visible[target] {
								continue
							}
							if B.Opts[OKey(lv.Path, k)] != base.Opts[OKey(lv.Path, k)] {
								return failf("exact name %q also changed option key %q: %+v -> %+v", p, k, base.Opts[OKey(lv.Path, k)], B.Opts[OKey(lv.Path, k)])
							}
						}
					}
					continue
				}
				if len(M) >= 2 {
					st.Class("ambiguous")
					if st.NT(fmt.Sprintf("a|%v|%s|%s|%d", keys, p, dash, mode)) {
						st.Sample(map[string]interface{}{"names": keys, "prefix": p, "candidates": M, "mode": modeNames[mode]})
					}
					argvP := mk(p, nil)
					B := Run(c.Spec, argvP, RunOpts{})
					if B.Panic != "" {
						return failf("panic: %s", B.Panic)
					}
					if !B.ParseFailed {
						return failf("prefix %q matches %v at level %s and is not a name itself, yet Parse(%s) succeeded (silently resolved or ignored)", p, M, lv.Path, q(argvP))
					}
					for _, cand := range M {
						if !strings.Contains(B.ParseErr, cand) {
							return failf("ambiguity error %q does not list candidate %q of %v", B.ParseErr, cand, M)
						}
					}
					if d := optsDiff(base.Opts, B.Opts); d != "" {
						return failf("ambiguous prefix %q changed option state: %s", p, d)
					}
					// the same ambiguous text with a value attached: still rejected, still all candidates
					for _, av := range []string{"=val", "=7", "=true"} {
						argvV := append(append([]string{}, c.Path...), argvP[len(c.Path)]+av)
						V := Run(c.Spec, argvV, RunOpts{})
						st.Class("ambiguous+attached-value")
						if V.Panic != "" {
							return failf("panic: %s", V.Panic)
						}
						if !V.ParseFailed {
							return failf("prefix %q matches %v at level %s and is not a name itself, yet with an attached value Parse(%s) succeeded (silently resolved)", p, M, lv.Path, q(argvV))
						}
						for _, cand := range M {
							if !strings.Contains(V.ParseErr, cand) {
								return failf("ambiguity error %q for %s does not list candidate %q of %v", V.ParseErr, q(argvV), cand, M)
							}
						}
						if d := optsDiff(base.Opts, V.Opts); d != "" {
							return failf("ambiguous prefix %q with attached value changed option state: %s", p, d)
						}
					}
					// the same ambiguous text right behind an option that can still take a value (optional-value option
					// without value, multi-valued option below its maximum): an option-looking word is never taken as
					// that value, so it is still interpreted - and rejected as ambiguous
					openers := 0
					seenOpener := map[*OptSpec]bool{}
					for _, gk := range keys {
						g := lv.Visible[gk].Spec
						if gk == "-" || gk != g.Name || seenOpener[g] || openers >= 2 || lv.Visible[gk].Help {
							continue
						}
						var lead []string
						switch {
						case g.Kind.IsOptional():
							lead = []string{"--" + gk}
						case g.Kind.IsMulti() && g.Min < g.Max:
							lead = []string{"--" + gk}
							for j := 0; j < g.Min; j++ {
								lead = append(lead, valueFor(g))
							}
						default:
							continue
						}
						seenOpener[g] = true
						openers++
						argvO := append(append(append([]string{}, c.Path...), lead...), argvP[len(c.Path)])
						O := Run(c.Spec, argvO, RunOpts{})
						st.Class("ambiguous-behind-an-open-ended-option")
						if O.Panic != "" {
							return failf("panic: %s", O.Panic)
						}
						if !O.ParseFailed {
							return failf("prefix %q matches %v at level %s and is not a name itself, yet behind the open-ended option %q Parse(%s) succeeded (taken as a value or silently resolved)", p, M, lv.Path, gk, q(argvO))
						}
						for _, cand := range M {
							if !strings.Contains(O.ParseErr, cand) {
								return failf("ambiguity error %q for %s does not list candidate %q of %v", O.ParseErr, q(argvO), cand, M)
							}
						}
					}
					if len(c.Path) > 0 {
						root := c.Spec.Levels()
						if rk, _ := resolve(root, p); rk != "" && !(root.Visible[rk].Spec.Kind.IsMulti() && root.Visible[rk].Spec.Max > root.Visible[rk].Spec.Min) {
							prime := mk(p, root.Visible[rk].Spec)[len(c.Path):]
							argvQ := append(append(append([]string{}, prime...), c.Path...), argvP[len(c.Path):]...)
							Q := Run(c.Spec, argvQ, RunOpts{})
							st.Class("primed-at-root")
							if !Q.ParseFailed {
								return failf("prefix %q is ambiguous at level %s (%v); after having been used at the root (where it means %q) it was accepted silently: Parse(%s) succeeded", p, lv.Path, M, rk, q(argvQ))
							}
						}
					}
				}
			}
		}
	}
	return nil
}

var propC05 = &Prop[C05Case]{ID: "C05", Sub: "abbrev",
	Rule:  "rapid: definitions drawn from a prefix-rich name pool (families v/ve/ver/verb/verbose/version, single letters, multibyte, inherited options inside commands) x a command level; within each case EVERY prefix of EVERY visible name/alias is tried in every spelling the mode allows (exhaustive per case), ambiguous prefixes also with an attached value, and in Bundling mode every one-letter prefix also as a letter inside a bundle behind a declared flag letter (compared with the separate-token spelling); evaluations = (prefix, spelling) pairs; non-trivial = unique proper prefix in a set with a nested-prefix pair, exact name that also prefixes others, or ambiguous prefix; distinct by (name set, prefix, spelling, mode)",
	Gen:   genC05,
	Check: checkC05,
}

func init() { propC05.Register() }

func TestC05_abbrev(t *testing.T) { propC05.Run(t) }
