package cli

import (
	"fmt"
	"strings"
	"testing"

	"pgregory.net/rapid"

	"verif/harness/evid"
)

// C09 - require-order stops at the first non-option and hands the rest over verbatim.
// Oracle: metamorphic against the same definition WITHOUT require-order.
//  step 1 (model-free precondition): without require-order and in Pass mode,
//          Parse(pre ++ [stop]) == Parse(pre) with stop appended to remaining,
//          i.e. stop really is "neither a known option, nor a value of one, nor a subcommand name";
//  step 2: with require-order, Parse(pre ++ [stop] ++ tail) leaves exactly the option state of
//          Parse(pre) and returns remaining(pre) ++ [stop] ++ tail verbatim.

type C09Case struct {
	Spec  *ProgSpec `json:"spec"`
	Pre   Toks      `json:"pre"`
	Stop  BS        `json:"stop"`
	Tail  Toks      `json:"tail"`
	Kind  string    `json:"kind"`
	Kinds []string  `json:"kinds,omitempty"`
	ROAt  int       `json:"ro_at,omitempty"` // number of leading tokens of pre that stand before the require-order level is entered
}

func genC09(t *rapid.T) C09Case {
	cfg := DefaultCfg()
	cfg.RequireOrder = 2
	cfg.Help = 1
	cmdOnly := rapid.IntRange(0, 3).Draw(t, "cmdonly") == 0
	if cmdOnly {
		// require-order set on one sub-command only (a wrapper command), not on the program
		cfg.RequireOrder = 0
		cfg.MinCmds = 1
	}
	spec := GenProg(t, cfg)
	ac := safeArgvCfg()
	ac.Positional = 0
	ac.Commands = 2
	a := NewArgvGen(t, spec, ac)
	// the built-in help command is created with fresh settings (no require-order): it is not a user level
	a.AvoidLevel = func(l *Level) bool { return l.IsHelpCmd }
	roAt := 0
	if cmdOnly && len(spec.Root.Cmds) > 0 {
		ci := rapid.IntRange(0, len(spec.Root.Cmds)-1).Draw(t, "rocmd")
		spec.Root.Cmds[ci].RequireOrder = true
		a = NewArgvGen(t, spec, ac)
		a.AvoidLevel = func(l *Level) bool { return l.IsHelpCmd }
		// before the command token anything goes: positionals, options
		pre0 := ac
		pre0.Positional, pre0.Commands = 3, 0
		a.cfg = pre0
		k := rapid.IntRange(0, 3).Draw(t, "nroot")
		for i := 0; i < k; i++ {
			a.Step()
		}
		name := spec.Root.Cmds[ci].Name
		if ch, ok := a.cur.Children[name]; ok && a.cur.Parent == nil {
			a.Push("command", name)
			a.cur = ch
			roAt = len(a.Argv)
		}
		a.cfg = ac
	}
	n := rapid.IntRange(0, 4).Draw(t, "npre")
	for i := 0; i < n; i++ {
		a.Step()
	}
	c := C09Case{Spec: spec, Pre: a.Argv, Kinds: a.Kinds, ROAt: roAt}
	lv := a.Cur()
	c.Kind = rapid.SampledFrom([]string{"positional", "positional", "unknown", "unknown-repeat", "dash"}).Draw(t, "stopkind")
	if c.Kind == "unknown-repeat" {
		// an option spelling already used earlier on the line (at a level where it is declared) that is NOT
		// declared at the level the stop token stands at: a wrapper command handing its own flags on
		c.Kind = "unknown"
		var again []string
		for _, tok := range a.Argv {
			if !strings.HasPrefix(tok, "--") || len(tok) < 3 {
				continue
			}
			name := strings.SplitN(tok[2:], "=", 2)[0]
			if key, cands := resolve(lv, name); key == "" && len(cands) == 0 {
				if rk, _ := resolve(spec.Levels(), name); rk != "" {
					again = append(again, tok)
				}
			}
		}
		if len(again) == 0 {
			// none on the line yet: give a root flag that is not declared here at the very start of the line
			root := spec.Levels()
			var flags []string
			for _, k := range root.VisibleKeys() {
				if k == "-" || !root.Visible[k].Spec.Kind.IsFlag() {
					continue
				}
				if key, cands := resolve(lv, k); key == "" && len(cands) == 0 {
					flags = append(flags, k)
				}
			}
			if len(flags) > 0 {
				tok := "--" + rapid.SampledFrom(flags).Draw(t, "stoprootflag")
				c.Pre = append([]string{tok}, c.Pre...)
				c.Kinds = append([]string{"known:Bool"}, c.Kinds...)
				if c.ROAt > 0 {
					c.ROAt++
				}
				again = append(again, tok)
			}
		}
		if len(again) > 0 {
			c.Kind = "unknown-repeat"
			c.Stop = BS(rapid.SampledFrom(again).Draw(t, "stopagain"))
		}
	}
	switch c.Kind {
	case "positional":
		for try := 0; ; try++ {
			w := sampled(t, "stopw", wordPool)
			if _, isCmd := lv.Children[w]; !isCmd || try > 20 {
				if isCmd {
					w = "foo"
				}
				c.Stop = BS(w)
				break
			}
		}
	case "unknown":
		c.Stop = BS(a.unknownTok())
	case "dash":
		c.Stop = "-"
	}
	nt := rapid.IntRange(0, 5).Draw(t, "ntail")
	tail := []string{}
	for i := 0; i < nt; i++ {
		tail = append(tail, a.tailTok())
	}
	c.Tail = tail
	return c
}

// withoutRO returns the same definition without require-order. With passMode the unknown mode is Pass
// everywhere (so that an unknown option can be recognised as a stop candidate); without it the modes are kept
// (needed when part of the command line stands at levels where require-order is not in force anyway).
func withoutRO(p *ProgSpec, passMode bool) *ProgSpec {
	cp := *p
	cp.RequireOrder = false
	if passMode {
		cp.UnknownMode = UnkPass
	}
	var strip func(c CmdSpec) CmdSpec
	strip = func(c CmdSpec) CmdSpec {
		c.RequireOrder = false
		if passMode {
			c.UnknownMode = 0
		}
		cmds := make([]CmdSpec, len(c.Cmds))
		for i := range c.Cmds {
			cmds[i] = strip(c.Cmds[i])
		}
		c.Cmds = cmds
		return c
	}
	cp.Root = strip(p.Root)
	return &cp
}

func checkC09(c C09Case, st *evid.Stats) error {
	stop := string(c.Stop)
	full := append(append(append([]string{}, c.Pre...), stop), c.Tail...)
	if DangerousRange(full) {
		st.Exclude("int range beyond bound")
		return nil
	}
	if TokClass(stop) == "odd" || TokClass(stop) == "term" {
		st.Exclude("stop token is an odd dash token")
		return nil
	}
	nro := withoutRO(c.Spec, c.ROAt == 0)
	A := Run(nro, c.Pre, RunOpts{})
	if A.Panic != "" {
		return failf("panic: %s", A.Panic)
	}
	if A.ParseFailed {
		st.Exclude("pre does not parse")
		return nil
	}
	// no non-option token may stand inside the require-order level before the stop candidate (it would be the
	// stop point itself); text before the require-order command was entered is fine and must be conserved
	roAt := c.ROAt
	if roAt > len(c.Pre) {
		roAt = len(c.Pre)
	}
	A0 := Run(nro, c.Pre[:roAt], RunOpts{})
	if A0.ParseFailed || !eqStrs(A.Remaining, A0.Remaining) {
		st.Exclude("pre already contains a non-option token (earlier stop point)")
		return nil
	}
	if roAt > 0 {
		st.Class("require-order-on-a-subcommand-only")
	}
	// A bundle whose leading letters are known options is partly interpreted before the stop hits at its
	// first unknown letter. Whether those letters take effect is not fixed by the statement, so the state of
	// the options addressed by the stop token itself is not compared (generation aid: the model's hits).
	m1, m2 := Model(nro, c.Pre), Model(nro, append(append([]string{}, c.Pre...), stop))
	if m1.Unspecified != "" || m2.Unspecified != "" {
		st.Exclude("unspecified: " + m1.Unspecified + m2.Unspecified)
		return nil
	}
	// the stop candidate must stand at a level where require-order is in force (a command token of pre may have
	// been swallowed as an option value, so that the require-order command was never entered)
	if lvl := m2.LevelAt[len(c.Pre)]; lvl == "" || c.Spec.Levels().Find(lvl) == nil || !c.Spec.Levels().Find(lvl).RequireOrder {
		st.Exclude("stop candidate does not stand at a require-order level")
		return nil
	}
	touched := map[string]bool{} // option identities addressed by the stop token
	for id, h := range m2.Hits {
		if len(h) != len(m1.Hits[id]) {
			touched[id] = true
		}
	}
	ignore := map[string]bool{} // observation keys of those options
	if len(touched) > 0 {
		st.Class("stop-token-is-a-partly-known-bundle")
		for _, l := range c.Spec.Levels().AllLevels() {
			for k, vo := range l.Visible {
				if touched[OKey(vo.Owner, vo.Spec.Name)] {
					ignore[OKey(l.Path, k)] = true
				}
			}
		}
	}
	strip := func(in map[string]OptObs) map[string]OptObs {
		if len(ignore) == 0 {
			return in
		}
		out := map[string]OptObs{}
		for k, v := range in {
			if !ignore[k] {
				out[k] = v
			}
		}
		return out
	}
	P := Run(nro, append(append([]string{}, c.Pre...), stop), RunOpts{})
	if P.Panic != "" {
		return failf("panic: %s", P.Panic)
	}
	// An option-looking candidate that matches nothing at its level per the reference model is a stop token
	// whatever the implementation makes of it without require-order (otherwise a defect that swallows such a
	// token in both configurations would remove the case from the check).
	modelUnknown := false
	for _, ix := range m2.UnknownTok {
		if ix == len(c.Pre) {
			modelUnknown = true
		}
	}
	if !modelUnknown && (P.ParseFailed || !eqStrs(P.Remaining, append(append([]string{}, A.Remaining...), stop)) || optsDiff(strip(A.Opts), strip(P.Opts)) != "") {
		st.Exclude("stop candidate is a value of the preceding option, a known option or a command name there")
		return nil
	}
	R := Run(c.Spec, full, RunOpts{Dispatch: true})
	AD := Run(nro, c.Pre, RunOpts{Dispatch: true})
	st.Eval()
	st.Class("stop:" + c.Kind)
	if R.Panic != "" {
		return failf("panic: %s", R.Panic)
	}
	hasKnownInTail := false
	lv := c.Spec.Levels()
	for _, tk := range c.Tail {
		if tk == "--" {
			hasKnownInTail = true
		}
		if TokClass(tk) == "opt" {
			hasKnownInTail = true
		}
		for _, l := range lv.AllLevels() {
			if _, ok := l.Children[tk]; ok {
				hasKnownInTail = true
			}
		}
	}
	depth := 0
	for _, k := range c.Kinds {
		if k == "command" {
			depth++
		}
	}
	st.Class(fmt.Sprintf("depth:%d", min(depth, 2)))
	if hasKnownInTail && len(c.Pre) > 0 {
		if st.NT(c.Kind + "|" + KindSig(c.Kinds) + "|" + fmt.Sprint(len(c.Tail)) + modeNames[c.Spec.Mode] + unkNames[c.Spec.UnknownMode]) {
			st.Sample(map[string]interface{}{"pre": c.Pre, "stop": c.Stop, "tail": c.Tail, "mode": modeNames[c.Spec.Mode], "unknown": unkNames[c.Spec.UnknownMode]})
		}
	}
	if R.ParseFailed {
		return failf("require-order: Parse(%s) failed (%s) although everything before the stop token %q parses without require-order", q(full), R.ParseErr, stop)
	}
	want := append(append(append([]string{}, A.Remaining...), stop), c.Tail...)
	if !eqStrs(R.Remaining, want) {
		return failf("require-order: remaining = %s, want %s (stop token %q and everything after it verbatim); %s", q(R.Remaining), q(want), stop, describeCase(c.Spec, full))
	}
	// option state: compare value/called/as for every observation key (the two specs have the same tree)
	if d := optsDiff(strip(A.Opts), strip(R.Opts)); d != "" {
		return failf("require-order: option state differs from parsing the part before the stop token without require-order: %s; pre=%s stop=%q tail=%s %s", d, q(c.Pre), stop, q(c.Tail), describeCase(c.Spec, full))
	}
	if R.Writer != A.Writer {
		return failf("require-order: warning output %q, want %q (that of the part before the stop token)", R.Writer, A.Writer)
	}
	// same command selected as by pre alone (not comparable when the stop token itself addressed options,
	// e.g. the help option as a bundled letter)
	if len(touched) > 0 {
		return nil
	}
	if len(AD.Inv) != len(R.Inv) {
		return failf("require-order: %d user functions dispatched, %d for the part before the stop token", len(R.Inv), len(AD.Inv))
	}
	for i := range R.Inv {
		if R.Inv[i].Path != AD.Inv[i].Path {
			return failf("require-order: a token after the stop point selected command %s (want %s)", R.Inv[i].Path, AD.Inv[i].Path)
		}
		if !eqStrs(R.Inv[i].Args, R.Remaining) {
			return failf("dispatched function got %s, want %s", q(R.Inv[i].Args), q(R.Remaining))
		}
	}
	return nil
}

var propC09 = &Prop[C09Case]{ID: "C09", Sub: "order",
	Rule:  "rapid: definitions with SetRequireOrder on the root (inherited by commands) x pre (known options incl. multi/optional-valued, command tokens) ++ stop token (positional, unknown option, '-') ++ hostile tail (known option spellings, `--`, command names, unknown options); metamorphic against the same definition without require-order (Pass mode) on pre alone; candidates the non-require-order parser consumes as a value/command are not stop tokens and are not judged; non-trivial = non-empty pre and a tail token that would have an effect; distinct by (stop kind, pre classes, tail length, modes)",
	Gen:   genC09,
	Check: checkC09,
}

func init() { propC09.Register() }

func TestC09_order(t *testing.T) { propC09.Run(t) }
