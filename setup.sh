#!/bin/bash
# Offline setup: make sure the harness module resolves and pre-build the test binaries (warms the go build cache).
set -e
cd "$(dirname "$0")"
export GOFLAGS=-mod=mod GOPROXY=off GOSUMDB=off GOTOOLCHAIN=local
mkdir -p work evidence
cd harness
[ -f go.sum ] || cp /repo/go.sum go.sum 2>/dev/null || true
go test -c -tags verif -vet=off -o ../work/.setup-cli.test ./cli
if [ -d dagh ] && ls dagh/*.go >/dev/null 2>&1; then
  go test -c -tags verif -vet=off -o ../work/.setup-dagh.test ./dagh
  go test -c -race -tags verif -vet=off -o ../work/.setup-dagh-race.test ./dagh
fi
rm -f ../work/.setup-*.test
echo "setup ok"
