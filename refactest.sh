#!/bin/bash
# Run the quick checks of the matching domain against behaviour-preserving refactorings (scratch worktrees).
# usage: refactest.sh <dir with <area>/R*.diff> <outdir> [parallel]
SRC=$1; OUT=$2; P=${3:-3}
mkdir -p "$OUT" /tmp/refac/run
HERE=$(cd "$(dirname "$0")" && pwd)
CLI=C01,C02,C03,C04,C05,C06,C07,C08,C09,C10,C11,C12,C17,C18,C19,C20
DAG=C13,C14,C15,C16
for f in "$SRC"/*/R*.diff; do
  a=$(basename $(dirname $f)); r=$(basename $f .diff); d=/tmp/refac/run/$a-$r; mkdir -p $d; cp $f $d/patch.diff
done
ls -d /tmp/refac/run/* | xargs -P "$P" -I{} sh -c "n=\$(basename {}); [ -s $OUT/\$n.json ] && exit 0; if grep -q 'dag/dag.go' {}/patch.diff; then L=$DAG; else L=$CLI; fi; python3 $HERE/seedtest.py detect-scratch {} \$L quick > $OUT/\$n.json 2>&1"
