#!/usr/bin/env python3
"""Automatic mutation sweep: a systematic sensitivity measurement for the quick checks.

tools/mutgen enumerates syntactic mutants (operator swaps, negated conditions, deleted simple statements, literal
flips) of the library's non-test sources. For every selected mutant, in a scratch copy of /repo (outside /repo and
/verif, removed afterwards):

  stage 1  build; run the repository's own suite.   not-building -> discarded, failing suite -> "killed by suite"
  stage 2  (suite survivors only) run the quick checks of the mutant's domain, strongest first, against the scratch
           copy (VERIF_REPO) until one reports a VIOLATION (rc 1).

Survivors of both stages are either equivalent mutants or gaps of the machinery; they are listed for triage.

  mutsweep.py stage1 [--workers N] [--files a.go,b.go]       -> seeded/mutsweep/stage1.json
  mutsweep.py stage2 [--workers N] [--sample K] [--seed S]   -> seeded/mutsweep/stage2.json  (resumable)
  mutsweep.py show
"""
import concurrent.futures as cf
import json
import os
import random
import shutil
import subprocess
import sys
import tempfile
import time

VERIF = os.path.dirname(os.path.abspath(__file__))
REPO = "/repo"
OUT = os.path.join(VERIF, "seeded", "mutsweep")
ENV = dict(os.environ, GOFLAGS="-mod=mod", GOPROXY="off", GOSUMDB="off", GOTOOLCHAIN="local",
           VERIF_EVIDENCE_DIR=os.path.join(VERIF, "work", "evidence-experiments"))
MUTGEN = os.path.join(VERIF, "work", "mutgen")

CLI_ORDER = ["C03", "C02", "C08", "C10", "C04", "C01", "C06", "C05", "C07", "C09", "C11", "C12", "C20", "C19", "C17", "C18"]
FILES = {
    "api.go": CLI_ORDER,
    "isoption.go": ["C07"] + [c for c in CLI_ORDER if c != "C07"],
    "user.go": ["C10", "C11", "C08"] + [c for c in CLI_ORDER if c not in ("C10", "C11", "C08")],
    "user_options.go": ["C12", "C06", "C01", "C02"] + [c for c in CLI_ORDER if c not in ("C12", "C06", "C01", "C02")],
    "user_help.go": ["C18", "C11", "C20", "C19", "C17", "C10", "C03"],
    "internal/option/option.go": ["C01", "C02", "C06", "C12"] + [c for c in CLI_ORDER if c not in ("C01", "C02", "C06", "C12")],
    "internal/help/help.go": ["C18", "C11", "C20", "C19"],
    "internal/completion/completion.go": ["C17", "C19", "C20"],
    "internal/sliceiterator/sliceiterator.go": CLI_ORDER,
    "dag/dag.go": ["C16", "C13", "C14", "C15"],
}


def sh(cmd, cwd=None, timeout=600, env=None):
    try:
        p = subprocess.run(cmd, cwd=cwd, env=env or ENV, shell=isinstance(cmd, str), stdout=subprocess.PIPE,
                           stderr=subprocess.STDOUT, text=True, errors="replace", timeout=timeout)
        return p.returncode, p.stdout
    except subprocess.TimeoutExpired as e:
        return 124, (e.stdout or b"").decode("utf8", "replace") if isinstance(e.stdout, bytes) else (e.stdout or "")


def build_mutgen():
    os.makedirs(os.path.dirname(MUTGEN), exist_ok=True)
    rc, out = sh(["go", "build", "-o", MUTGEN, "."], cwd=os.path.join(VERIF, "tools", "mutgen"))
    if rc != 0:
        sys.exit("mutgen does not build: " + out)


def list_mutants(files):
    ms = []
    for f in files:
        rc, out = sh([MUTGEN, "list", os.path.join(REPO, f)])
        for line in out.splitlines():
            m = json.loads(line)
            m["file"] = f
            m["id"] = f"{f}#{m['n']}"
            ms.append(m)
    return ms


def scratch(m):
    d = tempfile.mkdtemp(prefix="mutsw-", dir="/tmp")
    sh(["rsync", "-a", "--exclude", ".git", REPO + "/", d + "/"])
    sh([MUTGEN, "apply", os.path.join(REPO, m["file"]), str(m["n"]), os.path.join(d, m["file"])])
    return d


def stage1_one(m):
    d = scratch(m)
    try:
        rc, out = sh("go build ./... 2>&1 | tail -3", cwd=d, timeout=300)
        rc, out = sh(["go", "build", "./..."], cwd=d, timeout=300)
        if rc != 0:
            return dict(m, stage1="no-build")
        rc, out = sh(["go", "test", "-vet=off", "-count=1", "-timeout", "120s", "./..."], cwd=d, timeout=400)
        return dict(m, stage1="suite-pass" if rc == 0 else "suite-kill")
    finally:
        shutil.rmtree(d, ignore_errors=True)


def stage2_one(m):
    d = scratch(m)
    res = {}
    t0 = time.time()
    try:
        env = dict(ENV, VERIF_REPO=d)
        for p in FILES[m["file"]]:
            rc, out = sh([os.path.join(VERIF, "check"), p, "quick"], cwd=VERIF, env=env, timeout=2400)
            lines = [l for l in out.splitlines() if l.startswith("  what:")]
            res[p] = rc
            if rc == 1:
                return dict(m, stage2="detected", by=p, what=(lines[0][:300] if lines else ""), rcs=res, wall=round(time.time() - t0))
        return dict(m, stage2="survived", rcs=res, wall=round(time.time() - t0))
    finally:
        shutil.rmtree(d, ignore_errors=True)


def load(name):
    p = os.path.join(OUT, name)
    return json.load(open(p)) if os.path.exists(p) else {}


def save(name, obj):
    os.makedirs(OUT, exist_ok=True)
    tmp = os.path.join(OUT, name + ".tmp")
    json.dump(obj, open(tmp, "w"), indent=1, sort_keys=True)
    os.replace(tmp, os.path.join(OUT, name))


def arg(flag, default):
    return sys.argv[sys.argv.index(flag) + 1] if flag in sys.argv else default


def main():
    cmd = sys.argv[1]
    workers = int(arg("--workers", "6"))
    if cmd == "show":
        s1, s2 = load("stage1.json"), load("stage2.json")
        from collections import Counter
        print("stage1", Counter(v["stage1"] for v in s1.values()))
        print("stage2", Counter(v["stage2"] for v in s2.values()))
        print("detected by", Counter(v.get("by") for v in s2.values() if v["stage2"] == "detected"))
        for k, v in sorted(s2.items()):
            if v["stage2"] == "survived":
                print("SURVIVED", k, "line", v["line"], v["op"], "|", v["old"][:70].replace("\n", " "), "=>", v["new"][:40], v["rcs"])
        return
    build_mutgen()
    if cmd == "stage1":
        files = arg("--files", ",".join(FILES)).split(",")
        ms = list_mutants(files)
        done = load("stage1.json")
        todo = [m for m in ms if m["id"] not in done]
        print(f"{len(ms)} mutants, {len(todo)} to do", flush=True)
        with cf.ThreadPoolExecutor(workers) as ex:
            for i, r in enumerate(ex.map(stage1_one, todo)):
                done[r["id"]] = r
                if i % 25 == 0:
                    save("stage1.json", done)
                    print(i, r["id"], r["stage1"], flush=True)
        save("stage1.json", done)
    elif cmd == "stage2":
        s1 = load("stage1.json")
        done = load("stage2.json")
        surv = sorted(k for k, v in s1.items() if v["stage1"] == "suite-pass")
        k = int(arg("--sample", "0"))
        only = arg("--files", "")
        if only:
            surv = [s for s in surv if s.split("#")[0] in only.split(",")]
        if k and k < len(surv):
            random.Random(int(arg("--seed", "7"))).shuffle(surv)
            surv = surv[:k]
        todo = [s1[x] for x in surv if x not in done]
        print(f"{len(surv)} selected, {len(todo)} to do", flush=True)
        with cf.ThreadPoolExecutor(workers) as ex:
            for i, r in enumerate(ex.map(stage2_one, todo)):
                done[r["id"]] = r
                save("stage2.json", done)
                print(i, r["id"], r["stage2"], r.get("by"), r.get("wall"), flush=True)


if __name__ == "__main__":
    main()
