"""Table of sub-checks per property: Go test name, case counts per tier, shards, native fuzz targets."""

def sub(test, quick, thorough, shards=8, qshards=1, **kw):
    d = {"test": test, "quick": quick, "thorough": thorough, "shards": {"quick": qshards, "thorough": shards}}
    d.update(kw)
    return d

CLI_ASSUME = [
    "definitions respect the documented preconditions (unique names along a path, options before commands, help command last, 1<=min<=max)",
    "one fresh definition per parse; package-level Writer/exit hook/environment are reset per case",
]

CHECKS = {
    "C01": {"pkg": "cli", "assumptions": CLI_ASSUME + ["strconv.Atoi / strconv.ParseFloat(.,64) are the conversion specification named by the statement"],
            "subs": [sub("TestC01_scalar", 40000, 1600000, 16)],
            "fuzz": [{"target": "FuzzC01_scalar", "sub": "scalar", "time": 90}]},
    "C03": {"pkg": "cli", "assumptions": CLI_ASSUME + ["reference model of 'wholly consumed' tokens written from the statements; inputs it calls unspecified are not judged"],
            "subs": [sub("TestC03_conserve", 60000, 2400000, 16)],
            "fuzz": [{"target": "FuzzC03_conserve", "sub": "conserve", "time": 90}]},
    "C02": {"pkg": "cli", "assumptions": CLI_ASSUME + ["consumption rule transcribed from the statement; int ranges with a>=b, empty attached values and '--' in a mandatory position are not judged"],
            "subs": [sub("TestC02_multi", 50000, 2400000, 16)],
            "fuzz": [{"target": "FuzzC02_multi", "sub": "multi", "time": 90}]},
    "C04": {"pkg": "cli", "assumptions": CLI_ASSUME + ["a `--` standing where a mandatory value is still missing is excepted by the statement and not judged", "the reference model is used only to tell whether a require-order stop precedes the terminator"],
            "subs": [sub("TestC04_terminator", 40000, 1600000, 16)]},
    "C05": {"pkg": "cli", "assumptions": CLI_ASSUME,
            "subs": [sub("TestC05_abbrev", 2500, 120000, 16)]},
    "C06": {"pkg": "cli", "assumptions": CLI_ASSUME + ["the reference model is used only to confirm that the planned occurrences are the ones the command line addresses"],
            "subs": [sub("TestC06_alias", 30000, 1600000, 16)]},
    "C07": {"pkg": "cli", "assumptions": CLI_ASSUME + ["only the preconditions the statement gives are used: bundled leading letters are declared flags, head letters are declared options"],
            "subs": [sub("TestC07_modes", 40000, 1600000, 16)],
            "fuzz": [{"target": "FuzzC07_modes", "sub": "modes", "time": 90}]},
    "C08": {"pkg": "cli", "assumptions": CLI_ASSUME + ["uniform unknown-mode over the tree apart from the built-in help command; levels with differing modes between where the token stands and the selected level are not judged"],
            "subs": [sub("TestC08_unknown", 50000, 2400000, 16)],
            "fuzz": [{"target": "FuzzC08_unknown", "sub": "unknown", "time": 90}]},
    "C09": {"pkg": "cli", "assumptions": CLI_ASSUME + ["whether a candidate is a stop token is established on the real parser without require-order (model-free)"],
            "subs": [sub("TestC09_order", 30000, 1200000, 16)]},
    "C10": {"pkg": "cli", "assumptions": CLI_ASSUME + ["addressed command computed by the reference model; no required options and no help request in these cases (C11 covers them)"],
            "subs": [sub("TestC10_dispatch", 40000, 1600000, 16)]},
    "C11": {"pkg": "cli", "assumptions": CLI_ASSUME + ["which of several missing required options is named is not asserted here (C20)"],
            "subs": [sub("TestC11_required", 30000, 1200000, 16)]},
    "C12": {"pkg": "cli", "assumptions": CLI_ASSUME + ["for environment text that is not valid for the type only the value (= default) is asserted; Called is not fixed by the statement there", "optional-value option given without a value while the variable is set is not judged"],
            "subs": [sub("TestC12_precedence", 60000, 2400000, 16), sub("TestC12_exhaustive", 1, 1, 1, rapid=False)]},
    "C20": {"pkg": "cli", "assumptions": CLI_ASSUME + ["hidden state is sampled by repetition: 12 in-process executions on fresh definitions per case (every Go map gets its own hash seed and every range a random start)"],
            "subs": [sub("TestC20_repeat", 4000, 200000, 16, qshards=4)]},
    "C19": {"pkg": "cli", "env": {"VERIF_TRACK_CURRENT": "1"}, "hang_sub": "robust",
            "assumptions": CLI_ASSUME + ["int range tokens with a span above 10^4 are outside the stated domain and discarded (counted)", "'no hang' is decided up to a 10 s bound per call (normal cost: microseconds); a process time-out is confirmed by an isolated replay before it is reported"],
            "subs": [sub("TestC19_robust", 30000, 1600000, 16, qshards=2), sub("TestC19_seeds", 1, 1, 1, rapid=False)],
            "fuzz": [{"target": "FuzzC19_bytes", "sub": "robust", "time": 120}, {"target": "FuzzC19_robust", "sub": "robust", "time": 120}]},
    "C18": {"pkg": "cli", "assumptions": CLI_ASSUME + ["sections are located through the exported text.Help*Header variables; entries by their 4-space head indentation", "default renderings accepted: %f/%g for floats, quoted or raw for strings, [] and {} for slices and maps"],
            "subs": [sub("TestC18_help", 3000, 120000, 16)]},
    "C17": {"pkg": "cli", "assumptions": CLI_ASSUME + ["no require-order (the program name in COMP_LINE is itself the stop token there) and no `--` among the earlier words: outside the statement", "args consistent with what the shell passes: [program, word being completed, previous word]", "in-process through the verif hook (exit function and completion writer)"],
            "subs": [sub("TestC17_completion", 24000, 1600000, 16)],
            "fuzz": [{"target": "FuzzC17_completion", "sub": "completion", "time": 90}]},
}
