"""Table of sub-checks per property: Go test name, case counts per tier, shards, native fuzz targets."""

def sub(test, quick, thorough, shards=8, **kw):
    d = {"test": test, "quick": quick, "thorough": thorough, "shards": {"quick": 1, "thorough": shards}}
    d.update(kw)
    return d

CLI_ASSUME = [
    "definitions respect the documented preconditions (unique names along a path, options before commands, help command last, 1<=min<=max)",
    "one fresh definition per parse; package-level Writer/exit hook/environment are reset per case",
]

CHECKS = {
    "C01": {"pkg": "cli", "assumptions": CLI_ASSUME + ["strconv.Atoi / strconv.ParseFloat(.,64) are the conversion specification named by the statement"],
            "subs": [sub("TestC01_scalar", 40000, 1600000, 16)],
            "fuzz": [{"target": "FuzzC01_scalar", "sub": "scalar", "time": 90}]},
}
